/-
C13 model: the compression filter of proc/redis/filter_compress.go (as repaired) over an
abstract codec. The codec (snappy) is a parameter with the single assumption that
decompressing a compressed value yields the value.
-/
import SamVerif.Gen.Compress
import SamVerif.Gen.Commands
namespace SamVerif.Compress

abbrev Bytes := List UInt8

structure Codec where
  comp : Bytes → Bytes
  decomp : Bytes → Option Bytes
  roundtrip : ∀ v, decomp (comp v) = some v

/-- the header: magic number, algorithm byte (SNAPPY = 0), CR LF -/
def hdr : Bytes := Gen.Compress.magic ++ [0, 13, 10]

def isFramed (v : Bytes) : Bool := hdr.isPrefixOf v

/-- `compressFilter.compress` behind the guards of `Compress` -/
def compressValue (C : Codec) (thr : Nat) (v : Bytes) : Bytes :=
  if v.length < thr then v
  else if isFramed v then v
  else
    let f := hdr ++ C.comp v
    if f.length ≥ v.length then v else f

/-- `compressFilter.decompress` (on a text value): anything that is not a frame is left alone -/
def decompressValue (C : Codec) (v : Bytes) : Bytes :=
  if isFramed v then
    match C.decomp (v.drop hdr.length) with
    | some d => d
    | none => v
  else v

/-- positions of the values of a write command -/
def valuePositions (cmd : Bytes) (n : Nat) : List Nat :=
  match Gen.Compress.valueOffset.find? (fun p => p.1 == cmd) with
  | some (_, off) => (List.range n).filter fun i => off ≤ i ∧ (i - off) % Gen.Compress.valueStride = 0
  | none => []

/-- one pass of the filter over the arguments of a request (element 0 is the command name) -/
def filterArgs (C : Codec) (thr : Nat) (cmd : Bytes) (args : List Bytes) : List Bytes :=
  let pos := valuePositions cmd args.length
  args.zipIdx.map fun (a, i) => if pos.contains i then compressValue C thr a else a

inductive Verdict where
  | continue_ (args : List Bytes)
  | rejected
  deriving Repr

/-- `compressFilter.Do` with a compression configuration present -/
def filterDo (C : Codec) (enabled : Bool) (thr : Nat) (cmd : Bytes) (args : List Bytes) : Verdict :=
  if !enabled then .continue_ args
  else if Gen.Commands.bannedCmdsInCps.contains cmd then .rejected
  else .continue_ (filterArgs C thr cmd args)

def iter {α : Type} (f : α → α) : Nat → α → α
  | 0, x => x
  | n + 1, x => iter f n (f x)

end SamVerif.Compress
