/-
Support definitions used by the generated (G2) translations of Go code.
Core Lean only.
-/
namespace SamVerif.Go

/-- `b[i]` on a `[]byte`. Go panics when `i ≥ len b`; every generated use is
inside a loop or guard that keeps `i < len b` (the default is never read on such
paths; the differential check compares against the real function anyway). -/
def byteAt (b : List UInt8) (i : Nat) : BitVec 8 := (b.getD i 0).toBitVec

/-- `b[lo:hi]` for `lo ≤ hi ≤ len b`. -/
def slice (b : List UInt8) (lo hi : Nat) : List UInt8 := (b.take hi).drop lo

/-- The value of `i` after `for i = a; i < n; i++ { if p(i) { break } }`. -/
def scanFrom (p : Nat → Bool) (a n : Nat) : Nat :=
  if h : a < n then
    if p a then a else scanFrom p (a + 1) n
  else a
termination_by n - a

theorem scanFrom_ge (p : Nat → Bool) (a n : Nat) : a ≤ scanFrom p a n := by
  fun_induction scanFrom p a n <;> omega

theorem scanFrom_le (p : Nat → Bool) (a n : Nat) (h : a ≤ n) : scanFrom p a n ≤ n := by
  fun_induction scanFrom p a n <;> omega

/-- At the index where the scan stops inside the range, the predicate holds. -/
theorem scanFrom_spec (p : Nat → Bool) (a n : Nat) (h : scanFrom p a n < n) :
    p (scanFrom p a n) = true := by
  fun_induction scanFrom p a n with
  | case1 a h1 h2 => exact h2
  | case2 a h1 h2 ih => exact ih h
  | case3 a h1 => omega

/-- Every index skipped by the scan fails the predicate. -/
theorem scanFrom_skipped (p : Nat → Bool) (a n : Nat) (k : Nat) (hk : a ≤ k)
    (hk2 : k < scanFrom p a n) : p k = false := by
  fun_induction scanFrom p a n with
  | case1 a h1 h2 => omega
  | case2 a h1 h2 ih =>
    by_cases hka : k = a
    · subst hka; simpa using h2
    · exact ih (by omega) hk2
  | case3 a h1 => omega

end SamVerif.Go
