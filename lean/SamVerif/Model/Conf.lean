/-
C08 model: the configuration store's three update handlers (config/config.go) emitting events,
and the controller's event handling (controller/controller.go), both as repaired.
Services are named by naturals, addresses are naturals, a configuration is (id, valid?).
-/
namespace SamVerif.Conf

structure Cfg where
  id : Nat
  valid : Bool
  deriving DecidableEq, Repr

structure Svc where
  cfg : Option Cfg
  eps : Option (List Nat)        -- `none` = the endpoint list is not known yet (Go: nil slice)
  deriving DecidableEq, Repr

inductive Event where
  | add (n : Nat) (cfg : Cfg) (eps : List Nat)
  | remove (n : Nat)
  | config (n : Nat) (cfg : Cfg)
  | endpoints (n : Nat) (added removed : List Nat)
  deriving DecidableEq, Repr

abbrev Store := Nat → Option Svc

def upd {β : Type} (f : Nat → β) (k : Nat) (v : β) : Nat → β := fun x => if x = k then v else f x

/-- `handleDependencyUpdate` for one added / one removed name -/
def depAdd (s : Store) (n : Nat) : Store × List Event :=
  match s n with
  | some _ => (s, [])
  | none => (upd s n (some { cfg := none, eps := none }), [])

def depRemove (s : Store) (n : Nat) : Store × List Event :=
  match s n with
  | none => (s, [])
  | some _ => (upd s n none, [.remove n])

/-- `handleSvcConfigUpdate` (repaired: an unusable previous configuration counts as absent for
the purpose of creating the processor) -/
def cfgUpdate (s : Store) (n : Nat) (c : Cfg) : Store × List Event :=
  match s n with
  | none => (s, [])
  | some sv =>
    let s' := upd s n (some { sv with cfg := some c })
    match sv.eps with
    | none => (s', [])
    | some eps =>
      -- the service is announced again after every configuration update (a processor may be missing for reasons the
      -- store cannot see: F-08e); the controller ignores the announcement of a service that has a processor
      let addEv : List Event := [.add n c eps]
      let cfgEv : List Event := match sv.cfg with
        | none => []
        | some _ => [.config n c]
      (s', cfgEv ++ addEv)

/-- removals in order: each one that is present is removed and reported -/
def removeEps : List Nat → List Nat → List Nat × List Nat
  | eps, [] => (eps, [])
  | eps, r :: rs =>
    if eps.contains r then
      let (e', vr) := removeEps (eps.erase r) rs
      (e', r :: vr)
    else removeEps eps rs

/-- additions in order: each one that is absent is appended and reported -/
def addEps : List Nat → List Nat → List Nat × List Nat
  | eps, [] => (eps, [])
  | eps, a :: as =>
    if eps.contains a then addEps eps as
    else
      let (e', va) := addEps (eps ++ [a]) as
      (e', a :: va)

/-- the event `handleSvcEndpointUpdate` emits, given the configuration, the endpoint list before
and after, and the effective additions / removals -/
def epsEvents (n : Nat) (cfg : Option Cfg) (old new : Option (List Nat)) (va vr : List Nat) : List Event :=
  match cfg, new with
  | some c, some e =>
    (match old with
     | none => [.add n c e]
     | some _ => if va.isEmpty && vr.isEmpty then [] else [.endpoints n va vr])
  | _, _ => []

/-- Go: a nil slice stays nil unless something was appended -/
def newEps (old : Option (List Nat)) (e2 va : List Nat) : Option (List Nat) :=
  match old with
  | none => if va.isEmpty then none else some e2
  | some _ => some e2

/-- `handleSvcEndpointUpdate` (repaired: no event while the endpoint list is still unknown) -/
def epsUpdate (s : Store) (n : Nat) (added removed : List Nat) : Store × List Event :=
  if added.isEmpty && removed.isEmpty then (s, []) else
  match s n with
  | none => (s, [])
  | some sv =>
    let r := removeEps (sv.eps.getD []) removed
    let a := addEps r.1 added
    let eps' := newEps sv.eps a.1 a.2
    (upd s n (some { sv with eps := eps' }), epsEvents n sv.cfg sv.eps eps' a.2 r.2)

/-! ### controller -/

structure Proc where
  cfg : Cfg
  hosts : List Nat
  deriving DecidableEq, Repr

abbrev Procs := Nat → Option Proc

/-- `handleEvent` (repaired: removals before additions) -/
def apply (p : Procs) : Event → Procs
  | .add n c eps =>
    match p n with
    | some _ => p
    | none => if c.valid then upd p n (some { cfg := c, hosts := eps.eraseDups }) else p
  | .remove n => upd p n none
  | .config n c =>
    match p n with
    | none => p
    | some pr => if c.valid then upd p n (some { pr with cfg := c }) else p
  | .endpoints n added removed =>
    match p n with
    | none => p
    | some pr =>
      let h1 := pr.hosts.filter (fun a => !removed.contains a)
      let h2 := h1 ++ (added.eraseDups.filter (fun a => !h1.contains a))
      upd p n (some { pr with hosts := h2 })

def drain (p : Procs) (evs : List Event) : Procs := evs.foldl apply p

/-- the behaviour before the repairs, for the counterexample theorems -/
def applyOld (p : Procs) : Event → Procs
  | .endpoints n added removed =>
    match p n with
    | none => p
    | some pr =>
      let h1 := pr.hosts ++ (added.eraseDups.filter (fun a => !pr.hosts.contains a))
      upd p n (some { pr with hosts := h1.filter (fun a => !removed.contains a) })
  | e => apply p e

end SamVerif.Conf
