/-
C06 / C05 / C09: the life of one relayed TCP connection (`proc/tcp/proc.go` HandleConn inside
`listener.handleRawConn`): selection and dial, the two copy loops, the watcher goroutine that
closes both sockets when the picked host is removed or the processor stops, the deferred closes
and the host's connection count.
-/
namespace SamVerif.TcpConn

inductive Phase | selecting | relaying | returned
deriving Repr, DecidableEq

inductive Watcher | none | armed | gone
deriving Repr, DecidableEq

structure T where
  phase : Phase := .selecting
  cOpen : Bool := true          -- the client's socket is open at the proxy
  sOpen : Bool := false         -- the backend socket is open
  c2s : Bool := false           -- the copy loop client → backend is running
  s2c : Bool := false
  latch : Bool := false         -- the picked host's removal latch is closed
  quit : Bool := false          -- the processor has been told to stop
  watcher : Watcher := .none
  count : Nat := 0              -- what this connection contributes to the host's connection count
deriving Repr, DecidableEq

inductive Label
  | start (usable dialOk : Bool)   -- HandleConn up to the relay: a usable host exists / the dial succeeds
  | peerEnds (toBackend : Bool)    -- a copy loop ends on its own: EOF, an error, the idle timeout
  | hostRemoved
  | quit
  | watcherFire                    -- the watcher sees the latch (or quit): closes both sockets and returns
  | loopBreaks (toBackend : Bool)  -- a copy loop on a closed socket ends
  | ret                            -- both loops have ended: HandleConn returns (deferred closes, count back)
  | watcherExit                    -- the watcher sees `finished`
deriving Repr, DecidableEq

def internal : Label → Bool
  | .watcherFire | .loopBreaks _ | .ret | .watcherExit => true
  | _ => false

def step (t : T) : Label → Option T
  | .start usable dialOk =>
    if t.phase = .selecting then
      if usable ∧ dialOk then
        some { t with phase := .relaying, sOpen := true, c2s := true, s2c := true, watcher := .armed, count := 1 }
      else some { t with phase := .returned, cOpen := false }      -- the listener closes the client's socket
    else none
  | .peerEnds true => if t.phase = .relaying ∧ t.c2s = true then some { t with c2s := false } else none
  | .peerEnds false => if t.phase = .relaying ∧ t.s2c = true then some { t with s2c := false } else none
  | .hostRemoved => some { t with latch := true }
  | .quit => some { t with quit := true }
  | .watcherFire =>
    if t.watcher = .armed ∧ (t.latch = true ∨ t.quit = true) then
      some { t with watcher := .gone, cOpen := false, sOpen := false }
    else none
  | .loopBreaks true =>
    if t.phase = .relaying ∧ t.c2s = true ∧ (t.cOpen = false ∨ t.sOpen = false) then some { t with c2s := false } else none
  | .loopBreaks false =>
    if t.phase = .relaying ∧ t.s2c = true ∧ (t.cOpen = false ∨ t.sOpen = false) then some { t with s2c := false } else none
  | .ret =>
    if t.phase = .relaying ∧ t.c2s = false ∧ t.s2c = false then
      some { t with phase := .returned, sOpen := false, cOpen := false, count := 0 }
    else none
  | .watcherExit => if t.watcher = .armed ∧ t.phase = .returned then some { t with watcher := .gone } else none

def run (t : T) : List Label → Option T
  | [] => some t
  | l :: ls => match step t l with | some t' => run t' ls | none => none

end SamVerif.TcpConn
