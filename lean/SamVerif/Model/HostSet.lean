/-
C15 / C06 model: host.Set (host/host.go, as repaired), the health monitor's hysteresis
(proc/internal/hc/monitor.go) and the three balancers (proc/internal/lb/lb.go).

Host objects have identity: an object is (id, addr, main?) with a mutable health flag and a
removal latch kept in the state. Maps are functions `addr → Option id` plus the list of
addresses ever seen (for enumeration).
-/
namespace SamVerif.HostSet

structure Obj where
  id : Nat
  addr : Nat
  main : Bool          -- TypeMain / TypeBackup
  deriving DecidableEq, Repr

structure State where
  all : Nat → Option Nat
  hMain : Nat → Option Nat
  hBackup : Nat → Option Nat
  reg : Nat → Option (Nat × Bool)     -- object id ↦ (addr, main?) of every object seen
  flag : Nat → Bool                   -- health flag of an object (objects start healthy)
  removed : Nat → Bool                -- removal latch of an object
  dom : List Nat                      -- addresses ever added

def init : State :=
  { all := fun _ => none, hMain := fun _ => none, hBackup := fun _ => none, reg := fun _ => none,
    flag := fun _ => true, removed := fun _ => false, dom := [] }

def upd {β : Type} (f : Nat → β) (k : Nat) (v : β) : Nat → β := fun x => if x = k then v else f x

/-- delete the healthy entry of address `a` in the tier `main` -/
def dropH (s : State) (main : Bool) (a : Nat) : State :=
  if main then { s with hMain := upd s.hMain a none } else { s with hBackup := upd s.hBackup a none }

def putH (s : State) (main : Bool) (a : Nat) (i : Nat) : State :=
  if main then { s with hMain := upd s.hMain a (some i) } else { s with hBackup := upd s.hBackup a (some i) }

/-- type of a stored object -/
def typOf (s : State) (i : Nat) : Bool := match s.reg i with | some (_, m) => m | none => true

/-- which tier's healthy entry of address `a` `Set.add`/`Set.remove` retire: the tier of the
object stored under `a` (for `add`: only when it is another object) -/
def storedTier (s : State) (a : Nat) (except : Option Nat) : Option Bool :=
  match s.all a with
  | some old => if some old = except then none else some (typOf s old)
  | none => none

/-- `Set.add` when nothing equal is stored: an object of the other type stored under the address
is retired and latched; the host is stored and listed as healthy iff its flag says so -/
def addOneRepl (s : State) (o : Obj) : State :=
  let t := storedTier s o.addr (some o.id)
  let hM := if t = some true then upd s.hMain o.addr none else s.hMain
  let hB := if t = some false then upd s.hBackup o.addr none else s.hBackup
  let rem := match t, s.all o.addr with
    | some _, some old => upd s.removed old true
    | _, _ => s.removed
  { all := upd s.all o.addr (some o.id)
    reg := upd s.reg o.id (some (o.addr, o.main))
    flag := s.flag
    removed := rem
    dom := if s.dom.contains o.addr then s.dom else o.addr :: s.dom
    hMain := if s.flag o.id = true ∧ o.main = true then upd hM o.addr (some o.id) else hM
    hBackup := if s.flag o.id = true ∧ o.main = false then upd hB o.addr (some o.id) else hB }

/-- `Set.add` of a host that is already stored as another, equal object (same address, same
type): the stored object stays, the argument is only seen -/
def addOneSeen (s : State) (o : Obj) : State := { s with reg := upd s.reg o.id (some (o.addr, o.main)) }

/-- one host of `Set.add` (as repaired) -/
def addOne (s : State) (o : Obj) : State :=
  if storedTier s o.addr (some o.id) = some o.main then addOneSeen s o else addOneRepl s o

/-- one host of `Set.remove` (as repaired): the stored object under the address is removed and
latched and its healthy entry dropped; the argument is latched; the entry of the argument's
tier is dropped -/
def removeOne (s : State) (o : Obj) : State :=
  let t := storedTier s o.addr none
  let hM := if t = some true then upd s.hMain o.addr none else s.hMain
  let hB := if t = some false then upd s.hBackup o.addr none else s.hBackup
  let rem := match s.all o.addr with
    | some st => upd s.removed st true
    | none => s.removed
  { all := upd s.all o.addr none
    reg := upd s.reg o.id (some (o.addr, o.main))
    flag := s.flag
    removed := upd rem o.id true
    dom := s.dom
    hMain := if o.main = true then upd hM o.addr none else hM
    hBackup := if o.main = false then upd hB o.addr none else hB }

def add (s : State) (os : List Obj) : State := os.foldl addOne s
def remove (s : State) (os : List Obj) : State := os.foldl removeOne s

/-- the stored objects, by ascending address -/
def stored (s : State) : List Obj :=
  s.dom.filterMap fun a => match s.all a with
    | some i => some { id := i, addr := a, main := typOf s i }
    | none => none

def replaceAll (s : State) (os : List Obj) : State := add (remove s (stored s)) os

/-- `MarkHostHealthy` / `MarkHostUnhealthy`: flag CAS, then (if the flag changed) the locked
membership test by identity and the map update. Returns the new state and the result. -/
def mark (s : State) (o : Obj) (healthy : Bool) : State × Bool :=
  if s.flag o.id = healthy then (s, false) else
  let member := s.all o.addr = some o.id
  ({ s with
      flag := upd s.flag o.id healthy
      hMain := if member ∧ o.main = true then upd s.hMain o.addr (if healthy then some o.id else none) else s.hMain
      hBackup := if member ∧ o.main = false then upd s.hBackup o.addr (if healthy then some o.id else none) else s.hBackup },
   decide member)

/-! ### the two halves of a mark, and the concurrent system -/

/-- `MarkHostHealthy` / `MarkHostUnhealthy`, first half: the flag CAS (outside the lock) -/
def markCas (s : State) (o : Obj) (p : Bool) : State := { s with flag := upd s.flag o.id p }

/-- second half, under the lock: membership test by identity and the map update -/
def markApply (s : State) (o : Obj) (p : Bool) : State × Bool :=
  let member := s.all o.addr = some o.id
  ({ s with
      hMain := if member ∧ o.main = true then upd s.hMain o.addr (if p then some o.id else none) else s.hMain
      hBackup := if member ∧ o.main = false then upd s.hBackup o.addr (if p then some o.id else none) else s.hBackup },
   decide member)

structure CS where
  st : State
  pend : Nat → Bool := fun _ => false     -- objects with a mark between its flag CAS and its locked half

inductive COp
  | add (os : List Obj)
  | remove (os : List Obj)
  | replaceAll (os : List Obj)
  | cas (o : Obj) (p : Bool)     -- first half of MarkHostHealthy (p) / MarkHostUnhealthy (¬p): the CAS succeeded
  | apply (o : Obj)              -- its second half, under the lock

def COp.objs : COp → List Obj
  | .add os => os
  | .remove os => os
  | .replaceAll os => os
  | .cas o _ => [o]
  | .apply o => [o]

def cstep (c : CS) : COp → Option CS
  | .add os => some { c with st := add c.st os }
  | .remove os => some { c with st := remove c.st os }
  | .replaceAll os => some { c with st := replaceAll c.st os }
  | .cas o p =>
    if c.st.flag o.id ≠ p ∧ c.pend o.id = false then some { st := markCas c.st o p, pend := upd c.pend o.id true } else none
  | .apply o =>
    if c.pend o.id = true then some { st := (markApply c.st o (c.st.flag o.id)).1, pend := upd c.pend o.id false } else none

def crun (c : CS) : List COp → Option CS
  | [] => some c
  | op :: ops => match cstep c op with | some c' => crun c' ops | none => none

/-- insertion into a list sorted by address -/
def insertByAddr (p : Nat × Nat) : List (Nat × Nat) → List (Nat × Nat)
  | [] => [p]
  | x :: xs => if x.1 < p.1 then x :: insertByAddr p xs else if x.1 = p.1 then x :: xs else p :: x :: xs

def entries (s : State) (m : Nat → Option Nat) : List (Nat × Nat) :=
  (s.dom.filterMap fun a => (m a).map fun i => (a, i)).foldr insertByAddr []

/-- `Healthy()`: the preferred tier's entries by ascending address, as (addr, object id) -/
def healthy (s : State) : List (Nat × Nat) :=
  let m := entries s s.hMain
  if m.isEmpty then entries s s.hBackup else m

/-- the specification: members currently flagged healthy in the preferred tier, by address -/
def usableSpec (s : State) : List (Nat × Nat) :=
  let members := fun (main : Bool) =>
    (s.dom.filterMap fun a => match s.all a with
      | some i => if typOf s i = main ∧ s.flag i then some (a, i) else none
      | none => none).foldr insertByAddr []
  if (members true).isEmpty then members false else members true

/-! ### monitor: rise / fall hysteresis -/

structure Health where
  healthy : Bool
  succ : Nat
  fail : Nat
  deriving DecidableEq, Repr

/-- `checkHostAndUpdateStatus` for one host that is a member of the set -/
def check (rise fall : Nat) (h : Health) (ok : Bool) : Health :=
  if ok then
    let succ := h.succ + 1      -- IncSuccessfulCount: failed := 0
    if succ > rise then { healthy := true, succ := 0, fail := 0 }    -- MarkHostHealthy resets both counts
    else { h with succ := succ, fail := 0 }
  else
    let fail := h.fail + 1
    if fail > fall then { healthy := false, succ := 0, fail := 0 }
    else { h with fail := fail, succ := 0 }

def runChecks (rise fall : Nat) (h : Health) : List Bool → Health
  | [] => h
  | o :: os => runChecks rise fall (check rise fall h o) os

/-! ### balancers -/

/-- round robin: `hosts[index.Inc() % n]`, the counter value *after* the increment -/
def rrPick (counter n : Nat) : Nat := (counter + 1) % n

def randomPick (r n : Nat) : Nat := r % n

/-- least connection: two samples, the first only if strictly less busy -/
def leastConnPick (r1 r2 : Nat) (conns : List Nat) : Nat :=
  let i := r1 % conns.length
  let j := r2 % conns.length
  if conns.getD i 0 < conns.getD j 0 then i else j

end SamVerif.HostSet
