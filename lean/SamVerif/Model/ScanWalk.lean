/-
C14/C18 model of `scanAddrs` (handler.go, since the repair of F-14d): which nodes a SCAN iteration walks over.
Tied to the code by the frozen statements of handleScan and scanAddrs (Props C14 `scan_walk_matches_model`) and by `c14.scan`.
-/
namespace SamVerif.ScanWalk

/-- `scanAddrs` (handler.go): the distinct masters of the routing table — `table[slot]` is the master owning the slot, if known —
in ascending order; the configured hosts as long as no slot is known.  Addresses are numbers here (their order is the string order
of the real addresses). -/
def scanAddrs (table : List (Option Nat)) (hosts : List Nat) : List Nat :=
  let ms := (table.filterMap id).eraseDups
  if ms.isEmpty then hosts else ms.mergeSort (fun a b => decide (a ≤ b))

end SamVerif.ScanWalk
