/-
C09: stopping the Redis upstream (`proc/redis/upstream.go`: Stop, the tail of Serve, createClient)
while a backend connection's read loop is following a redirection.  createClient (as repaired,
F-07e) connects without the lock: it checks quit and the table under the lock, connects, and
takes the lock again to check quit once more and publish the connection — what would be added
after quit is closed instead.  Serve takes `clientsMu` once after quit is closed and (as repaired,
F-09h) releases it before it stops the clients of its snapshot.
-/
namespace SamVerif.UpStop

inductive Mu | free | stopper
deriving Repr, DecidableEq

/-- a client's read loop handling a redirection (`handleRedirection` → `MakeRequestToHost` → `getClient` → `createClient`) -/
inductive RL
  | idle       -- reading replies
  | checked    -- past the quit check of MakeRequestToHost, on its way to createClient
  | dialing    -- in createClient, the connect in progress (the lock is not held)
  | done       -- back in the loop (the redirected request was sent, or refused)
deriving Repr, DecidableEq

inductive SP
  | idle | quitClosed | locked | stopping | returned
deriving Repr, DecidableEq

structure U where
  /-- the repaired Serve releases clientsMu before it stops the clients of its snapshot -/
  fixed : Bool
  quit : Bool := false
  mu : Mu := .free
  rl : RL := .idle
  aRunning : Bool := true     -- client A (whose read loop this is) is in the table and running
  bRunning : Bool := false    -- client B, created by the redirection
  snapA : Bool := false       -- Serve's snapshot of the table
  snapB : Bool := false
  sp : SP := .idle
deriving Repr, DecidableEq

inductive Label
  | redirect      -- A's read loop gets MOVED/ASK: MakeRequestToHost checks quit
  | rlLock        -- … takes clientsMu in createClient, checks quit again, releases it and starts to connect
  | dialDone      -- the connect succeeds; under the lock again: quit → the new connection is closed, else B is started and published
  | stopQuit      -- Stop closes quit
  | stopLock      -- Serve (its loops have ended) acquires clientsMu and loads the table
  | stopUnlock    -- (repaired) releases it
  | stopA         -- A.Stop() returns: A's loops have ended
  | stopB
  | stopReturn    -- every client of the snapshot is stopped: done is closed, Stop returns
deriving Repr, DecidableEq

def step (u : U) : Label → Option U
  | .redirect =>
    if u.rl = .idle ∧ u.aRunning = true then
      (if u.quit then some { u with rl := .done } else some { u with rl := .checked })
    else none
  | .rlLock =>
    if u.rl = .checked ∧ u.mu = .free then
      (if u.quit then some { u with rl := .done } else some { u with rl := .dialing })
    else none
  | .dialDone =>
    if u.rl = .dialing ∧ u.mu = .free then
      (if u.quit then some { u with rl := .done } else some { u with rl := .done, bRunning := true })
    else none
  | .stopQuit => if u.sp = .idle then some { u with sp := .quitClosed, quit := true } else none
  | .stopLock =>
    if u.sp = .quitClosed ∧ u.mu = .free then some { u with sp := .locked, mu := .stopper, snapA := u.aRunning, snapB := u.bRunning } else none
  | .stopUnlock => if u.fixed = true ∧ u.sp = .locked then some { u with sp := .stopping, mu := .free } else none
  | .stopA =>
    -- A's read loop can only end when it is not in the middle of the redirection
    if (u.sp = .stopping ∨ (u.fixed = false ∧ u.sp = .locked)) ∧ u.snapA = true ∧ u.aRunning = true ∧ (u.rl = .idle ∨ u.rl = .done) then
      some { u with aRunning := false }
    else none
  | .stopB =>
    if (u.sp = .stopping ∨ (u.fixed = false ∧ u.sp = .locked)) ∧ u.snapB = true ∧ u.bRunning = true then some { u with bRunning := false } else none
  | .stopReturn =>
    if (u.sp = .stopping ∨ (u.fixed = false ∧ u.sp = .locked)) ∧ (u.snapA = true → u.aRunning = false) ∧ (u.snapB = true → u.bRunning = false) then
      some { u with sp := .returned, mu := if u.fixed then u.mu else .free }
    else none

def run (u : U) : List Label → Option U
  | [] => some u
  | l :: ls => match step u l with | some u' => run u' ls | none => none

end SamVerif.UpStop
