/-
C19 model: the key counter of a backend is shared by the connections to that backend (`Collector.AllocCounter`, `Counter.Free`).
Tied to the code by the frozen statements of AllocCounter and Free (Props C19 `code_matches_model`) and by `c19.share`.
-/
import SamVerif.Model.Hotkey
namespace SamVerif.HotShare
open SamVerif.Hotkey

/-- the counter of one backend as the collector hands it out: every connection to that backend holds the same object
(`Collector.AllocCounter`), `refs` counts the holders (since 61d3b92) -/
structure Shared where
  /-- `true`: the code before 61d3b92 — whoever is stopped unregisters and resets the counter -/
  old : Bool := false
  c : Counter
  refs : Nat := 1

/-- what happens to the shared counter; `incr`/`latch` are the live connection's accesses and the collector's reads -/
inductive Op
  | incr (k : Nat)
  | latch
  | allocOther      -- another connection to the same backend is made (while the old one is still being stopped)
  | freeOther       -- another connection's filter is destroyed (`Counter.Free`)
deriving DecidableEq, Repr

def step (s : Shared) : Op → Option Shared
  | .incr k => (incr s.c k).map fun c' => { s with c := c' }
  | .latch => some { s with c := (latch s.c).2 }
  | .allocOther => some { s with refs := s.refs + 1 }
  | .freeOther =>
    if s.refs ≤ 1 then none                       -- the live connection holds one reference: another holder exists only if refs ≥ 2
    else if s.old then some { s with refs := s.refs - 1, c := { s.c with nodes := [] } }
    else some { s with refs := s.refs - 1 }

def run (s : Shared) : List Op → Option Shared
  | [] => some s
  | o :: os => match step s o with | some s' => run s' os | none => none

/-- the live connection's own history: what the other connections do is erased -/
def own : List Op → List Op := List.filter fun o => o != .allocOther && o != .freeOther

end SamVerif.HotShare
