/-
C01, composed system: any number of downstream connections (`Session.Sess` each) over any number
of backend connections.  A request is (connection, index on it).  A backend connection's writer
encodes dispatched requests of any connection in any order, its reader pairs the next reply with
the head of the sent queue; a reply is either final (it completes the request on its downstream
connection) or a redirection (the request will be sent again, possibly elsewhere); the proxy may
also answer a request by itself (errors, PING, a failed connect).  Everything interleaves freely.
-/
import SamVerif.Model.Session
namespace SamVerif.Compose
open SamVerif.Session

/-- a request: (downstream connection, index on it) -/
abbrev Rid := Nat × Nat

/-- a backend connection carrying requests of any downstream connection -/
structure WireC where
  wire : List Rid := []          -- requests in the order they were encoded
  inHand : Option Rid := none    -- encoded, not yet on the sent queue
  sent : List Rid := []          -- the sent queue
  replies : Nat := 0             -- replies decoded so far

structure Sys where
  sess : Nat → Sess
  wires : Nat → WireC
  results : List (Rid × (Nat × Nat)) := []   -- request ↦ (backend connection, index of the reply on it) that completed it
  locals : List Rid := []                    -- requests the proxy answered by itself

def init (cap : Nat) : Sys := { sess := fun _ => { cap := cap }, wires := fun _ => {} }

inductive CLabel
  | sess (c : Nat) (l : Label)      -- a reader / writer step of downstream connection c (not a completion)
  | encode (w : Nat) (r : Rid)      -- backend connection w encodes the dispatched request r
  | handoff (w : Nat)
  | pair (w : Nat) (final : Bool)   -- w's reader gives the next reply to the head of its sent queue; final: it completes the request
  | answer (r : Rid)                -- the proxy completes r by itself

def setSess (s : Sys) (c : Nat) (x : Sess) : Sys := { s with sess := fun i => if i = c then x else s.sess i }
def setWire (s : Sys) (w : Nat) (x : WireC) : Sys := { s with wires := fun i => if i = w then x else s.wires i }

def isComplete : Label → Bool
  | .complete _ => true
  | _ => false

def step (s : Sys) : CLabel → Option Sys
  | .sess c l =>
    if isComplete l then none else
    match Session.step (s.sess c) l with
    | some x => some (setSess s c x)
    | none => none
  | .encode w r =>
    if (s.wires w).inHand = none ∧ r.2 < (s.sess r.1).nread then
      some (setWire s w { s.wires w with wire := (s.wires w).wire ++ [r], inHand := some r })
    else none
  | .handoff w =>
    match (s.wires w).inHand with
    | some r => some (setWire s w { s.wires w with inHand := none, sent := (s.wires w).sent ++ [r] })
    | none => none
  | .pair w final =>
    match (s.wires w).sent with
    | r :: rest =>
      let s1 := setWire s w { s.wires w with sent := rest, replies := (s.wires w).replies + 1 }
      if final then
        match Session.step (s.sess r.1) (.complete r.2) with
        | some x => some { setSess s1 r.1 x with results := (r, (w, (s.wires w).replies)) :: s.results }
        | none => none
      else some s1
    | [] => none
  | .answer r =>
    match Session.step (s.sess r.1) (.complete r.2) with
    | some x => some { setSess s r.1 x with locals := r :: s.locals }
    | none => none

def run (s : Sys) : List CLabel → Option Sys
  | [] => some s
  | l :: ls => match step s l with | some s' => run s' ls | none => none


end SamVerif.Compose
