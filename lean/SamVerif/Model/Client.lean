/-
C02 model: one backend connection (`proc/redis/upstream.go`, type client) as a labelled
transition system, as repaired (see Props/C02.lean for the commits):

  senders   Send: take the read lock, test `drained`, then `select` between the quit latch
            and the pending queue
  writer    loopWrite: take from pending (or quit) → filter → encode → hand over to the
            processing queue (or, on quit, answer the request in hand); when it leaves, the
            connection and the quit latch are closed
  reader    loopRead: decode a reply → pair it with the head of the processing queue (or quit)
  starter   Start's tail: reader exited → close the connection, close quit → wait for the writer
            → take the write lock, set `drained` → answer everything left in both queues → done
  stopper   Stop: close quit, close the connection
  backend   may answer, send unsolicited replies, or break the connection at any step

Requests are identified by the number of the Send call (a request that is redirected is a new
Send on another connection).  `answered` is the log of completions on this connection: a reply
paired by the reader (which, for MOVED/ASK, hands the request to another connection) or an
error.
-/
namespace SamVerif.Client

inductive WPc
  | top                 -- at the select on quit / pending
  | hold (id : Nat)     -- has a request in hand (filter, encode)
  | handoff (id : Nat)  -- encoded; at the select on quit / processing
  | exited
deriving Repr, DecidableEq

inductive RPc
  | decode              -- in Decode
  | have                -- has a reply, at the select on processing / quit
  | exited
deriving Repr, DecidableEq

inductive SPc
  | waitReader | waitWriter | lockDrain | drain | finished
deriving Repr, DecidableEq

/-- how a request was completed on this connection -/
inductive How | reply | error
deriving Repr, DecidableEq

structure Cl where
  cap : Nat                          -- capacity of each queue (1024)
  pending : List Nat := []
  processing : List Nat := []
  quit : Bool := false
  drained : Bool := false
  done : Bool := false
  connOk : Bool := true
  writer : WPc := .top
  reader : RPc := .decode
  starter : SPc := .waitReader
  /-- Send calls that wait for their turn (the one-slot `groupSem` of 058c6b1: one Send at a time goes on to the queue) -/
  waiting : List Nat := []
  /-- the Send call that has the turn, holds the read lock and has seen `drained = false` (at most one) -/
  locked : List Nat := []
  /-- every Send call so far -/
  accepted : List Nat := []
  answered : List (Nat × How) := []
  /-- requests encoded into the write buffer and not flushed to the connection yet -/
  unflushed : List Nat := []
  /-- requests sent with an `abort` latch (resent by another connection's read loop, or by the slot refresher, since 9cd2b0b):
  their `Send` may also give up because the *sender* was told to stop -/
  abortable : List Nat := []
deriving Repr

inductive Label
  | sendBegin (id : Nat)        -- Send is called: it waits for its turn
  | turnTake (id : Nat)         -- it is its turn; RLock; drained → answer with an error, else go on to the select
  | turnQuit (id : Nat)         -- waiting for the turn: quit → answer with an error
  | turnAbort (id : Nat)        -- waiting for the turn: the sender's own quit → answer with an error
  | sendEnq (id : Nat)          -- select: enqueued
  | sendQuit (id : Nat)         -- select: quit → answer with an error
  | sendAbort (id : Nat)        -- select: the sender's own quit (`req.abort`) → answer with an error
  | wTake | wQuitTop
  | wFilterStop                 -- the filter chain answered the request itself
  | wEncodeOk | wEncodeFail
  | wHandoff | wHandoffQuit
  | rDecodeOk | rDecodeErr
  | rPair | rPairQuit
  | sReaderGone                 -- reader exited: close connection, close quit
  | sWriterGone                 -- writer exited
  | sLock                       -- write lock taken (no Send holds the read lock): drained := true
  | sDrainPending | sDrainProcessing | sDrainDone
  | stop                        -- Stop: close quit, close the connection
  | connBreak                   -- the backend (or the network) breaks the connection
deriving Repr, DecidableEq

def answer (s : Cl) (id : Nat) (h : How) : Cl := { s with answered := s.answered ++ [(id, h)] }

/-- `none`: not enabled -/
def step (s : Cl) : Label → Option Cl
  | .sendBegin id =>
    if id ∈ s.accepted then none
    else some { s with accepted := id :: s.accepted, waiting := id :: s.waiting }
  | .turnTake id =>
    if id ∈ s.waiting ∧ s.locked = [] then
      (if s.drained then some (answer { s with waiting := s.waiting.erase id } id .error)
       else some { s with waiting := s.waiting.erase id, locked := [id] })
    else none
  | .turnQuit id =>
    if id ∈ s.waiting ∧ s.quit then some (answer { s with waiting := s.waiting.erase id } id .error) else none
  | .turnAbort id =>
    if id ∈ s.waiting ∧ id ∈ s.abortable then some (answer { s with waiting := s.waiting.erase id } id .error) else none
  | .sendEnq id =>
    if id ∈ s.locked ∧ s.pending.length < s.cap then
      some { s with locked := s.locked.erase id, pending := s.pending ++ [id] }
    else none
  | .sendQuit id =>
    if id ∈ s.locked ∧ s.quit then some (answer { s with locked := s.locked.erase id } id .error) else none
  | .sendAbort id =>
    if id ∈ s.locked ∧ id ∈ s.abortable then some (answer { s with locked := s.locked.erase id } id .error) else none
  | .wTake =>
    match s.writer, s.pending with
    | .top, id :: rest => some { s with writer := .hold id, pending := rest }
    | _, _ => none
  | .wQuitTop => if s.writer = .top ∧ s.quit then some { s with writer := .exited, connOk := false, quit := true } else none
  | .wFilterStop =>
    match s.writer with
    -- (as repaired, F-02f) what was encoded before is flushed when nothing else is waiting to be written
    | .hold id => some (answer { s with writer := .top, unflushed := if s.pending = [] then [] else s.unflushed } id .error)
    | _ => none
  | .wEncodeOk =>
    match s.writer with
    -- into the write buffer, flushed at once when no further request is pending; a broken connection shows at the latest at the next flush
    | .hold id => some { s with writer := .handoff id, unflushed := if s.pending = [] then [] else s.unflushed ++ [id] }
    | _ => none
  | .wEncodeFail =>
    match s.writer with
    | .hold id => some (answer { s with writer := .exited, connOk := false, quit := true } id .error)
    | _ => none
  | .wHandoff =>
    match s.writer with
    | .handoff id => if s.processing.length < s.cap then some { s with writer := .top, processing := s.processing ++ [id] } else none
    | _ => none
  | .wHandoffQuit =>
    match s.writer with
    | .handoff id => if s.quit then some (answer { s with writer := .exited, connOk := false, quit := true } id .error) else none
    | _ => none
  | .rDecodeOk => if s.reader = .decode then some { s with reader := .have } else none   -- also after the connection broke: replies may sit in the read buffer
  | .rDecodeErr => if s.reader = .decode then some { s with reader := .exited } else none
  | .rPair =>
    match s.reader, s.processing with
    | .have, id :: rest => some (answer { s with reader := .decode, processing := rest } id .reply)
    | _, _ => none
  | .rPairQuit => if s.reader = .have ∧ s.quit then some { s with reader := .exited } else none
  | .sReaderGone =>
    if s.starter = .waitReader ∧ s.reader = .exited then some { s with starter := .waitWriter, quit := true, connOk := false } else none
  | .sWriterGone =>
    if s.starter = .waitWriter ∧ s.writer = .exited then some { s with starter := .lockDrain } else none
  | .sLock =>
    if s.starter = .lockDrain ∧ s.locked = [] then some { s with starter := .drain, drained := true } else none
  | .sDrainPending =>
    match s.starter, s.pending with
    | .drain, id :: rest => some (answer { s with pending := rest } id .error)
    | _, _ => none
  | .sDrainProcessing =>
    match s.starter, s.processing with
    | .drain, id :: rest => some (answer { s with processing := rest } id .error)
    | _, _ => none
  | .sDrainDone =>
    if s.starter = .drain ∧ s.pending = [] ∧ s.processing = [] then some { s with starter := .finished, done := true } else none
  | .stop => some { s with quit := true, connOk := false }
  | .connBreak => some { s with connOk := false }

def run (s : Cl) : List Label → Option Cl
  | [] => some s
  | l :: ls => match step s l with | some s' => run s' ls | none => none

/-- the filter step before the repair of F-02f: back to the top of the loop without a flush -/
def oldFilterStop (s : Cl) : Option Cl :=
  match s.writer with
  | .hold id => some (answer { s with writer := .top } id .error)
  | _ => none

/-- the request in the writer's hand, if any -/
def inWriter (s : Cl) : List Nat :=
  match s.writer with
  | .hold id => [id]
  | .handoff id => [id]
  | _ => []

/-- where requests that are not yet completed on this connection are -/
def places (s : Cl) : List Nat := s.waiting ++ s.locked ++ s.pending ++ inWriter s ++ s.processing


/-! ### split requests (MGET / MSET / DEL …): `request.go`, onChildDone

The children of a split request complete on whatever connection they were sent to, in any
order; each completion decrements the shared counter atomically and the one that reaches zero
answers the downstream request. -/

structure Multi where
  wait : Nat            -- childWait
  rawAnswered : Nat := 0

def childDone (m : Multi) : Multi :=
  let w := m.wait - 1
  { wait := w, rawAnswered := if w = 0 then m.rawAnswered + 1 else m.rawAnswered }

def childrenDone (m : Multi) : Nat → Multi
  | 0 => m
  | k + 1 => childrenDone (childDone m) k

end SamVerif.Client
