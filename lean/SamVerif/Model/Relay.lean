/-
C05 model: the two copy loops of proc/tcp/proc.go `HandleConn` / `pipeConn` as a labelled
transition system. A direction reads at most `bufSize` bytes into its buffer, writes the buffer
to the other side, and when the source has finished and everything is relayed half-closes the
destination. A schedule is a list of labels: every chunking and every interleaving of the two
loops and of the two senders is some schedule.
-/
namespace SamVerif.Relay

abbrev Bytes := List UInt8

structure Dir where
  sent : Bytes        -- everything the sender has written so far
  srcClosed : Bool    -- the sender has half-closed
  pos : Nat           -- bytes the copy loop has read so far
  buf : Bytes         -- chunk read and not yet written
  delivered : Bytes   -- what the receiver has got
  eof : Bool          -- closeWrite(dst) done: the receiver sees end-of-stream
  deriving DecidableEq, Repr

def Dir.init : Dir := { sent := [], srcClosed := false, pos := 0, buf := [], delivered := [], eof := false }

structure State where
  a2b : Dir    -- client → backend
  b2a : Dir    -- backend → client
  deriving DecidableEq, Repr

def State.init : State := { a2b := Dir.init, b2a := Dir.init }

def bufSize : Nat := 16 * 1024

inductive Label where
  | send (data : Bytes)   -- the sender writes
  | close                 -- the sender half-closes
  | read (n : Nat)        -- the copy loop's Read returns n bytes
  | write                 -- the copy loop's Write of the buffer
  | fin                   -- end of the copy loop: closeWrite(dst)
  deriving DecidableEq, Repr

/-- one step of one direction; `none` = the label is not enabled -/
def Dir.step (d : Dir) : Label → Option Dir
  | .send data => if d.srcClosed then none else some { d with sent := d.sent ++ data }
  | .close => some { d with srcClosed := true }
  | .read n =>
    if d.buf = [] ∧ 0 < n ∧ n ≤ bufSize ∧ d.pos + n ≤ d.sent.length ∧ d.eof = false then
      some { d with buf := (d.sent.drop d.pos).take n, pos := d.pos + n }
    else none
  | .write => if d.buf = [] then none else some { d with delivered := d.delivered ++ d.buf, buf := [] }
  | .fin =>
    if d.srcClosed = true ∧ d.pos = d.sent.length ∧ d.buf = [] ∧ d.eof = false then some { d with eof := true } else none

/-- a label together with the direction it belongs to -/
def step (s : State) (toBackend : Bool) (l : Label) : Option State :=
  if toBackend then (s.a2b.step l).map fun d => { s with a2b := d }
  else (s.b2a.step l).map fun d => { s with b2a := d }

def run (s : State) : List (Bool × Label) → Option State
  | [] => some s
  | (d, l) :: rest => match step s d l with
    | none => none
    | some s' => run s' rest

end SamVerif.Relay
