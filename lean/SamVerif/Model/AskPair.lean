/-
C04 model: the connection to a node that is importing a slot is shared by all traffic for that node; ASKING counts for the next
command only (`upstream.handleRedirection`, `client.Send(reqs...)` with `groupMu`).
Tied to the code by the frozen statements of handleRedirection, MakeRequestToHost (Props C04) and Send/send (Props C02) and by `c04.askpair`.
-/
namespace SamVerif.AskPair

/-- what arrives on the connection to a node that is importing a slot -/
inductive Cmd
  | asking                        -- ASKING: counts for the next command only
  | cmd (id : Nat) (asked : Bool) -- a command; `asked`: it is for a key of the slot being imported (only served after ASKING)
deriving DecidableEq, Repr

/-- the node: commands in arrival order, the one-shot flag; for each command whether it was served (otherwise: MOVED) -/
def exec : Bool → List Cmd → List (Nat × Bool)
  | _, [] => []
  | _, .asking :: rest => exec true rest
  | flag, .cmd id asked :: rest => (id, !asked || flag) :: exec false rest

/-- what the senders put on the shared connection: a request routed there directly, or a redirected one with its ASKING -/
inductive Send
  | direct (id : Nat)
  | redirected (id : Nat)
deriving DecidableEq, Repr

/-- since cf7dbc3 a redirected command and its ASKING are enqueued as one unit -/
def block : Send → List Cmd
  | .direct id => [.cmd id false]
  | .redirected id => [.asking, .cmd id true]

def queue (sends : List Send) : List Cmd := sends.flatMap block

end SamVerif.AskPair
