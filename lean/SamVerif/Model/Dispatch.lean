/-
C14 / C03 model: request validation and command dispatch of redis.go `handleRequest` +
handler.go, and the host choice of upstream.go `chooseHost`, over the command tables
regenerated from the source (`Gen.Commands`).
-/
import SamVerif.Gen.Commands
namespace SamVerif.Dispatch
open SamVerif

abbrev Bytes := List UInt8

/-- ASCII lower-casing (what `findHandler` applies after the repair; `bytes.ToLower` and
`strings.ToLower` agree with it on ASCII input) -/
def asciiLower (b : Bytes) : Bytes := b.map fun c => if 65 ≤ c ∧ c ≤ 90 then c + 32 else c

inductive Kind where
  | simple | sum | eval | mset | mget | scan | hotkey | ping | quit | info | time | select
  deriving DecidableEq, Repr

def kindOfHandler (h : String) : Option Kind :=
  if h == "handleSimpleCommand" then some .simple
  else if h == "handleSumResultCommand" then some .sum
  else if h == "handleEval" then some .eval
  else if h == "handleMSet" then some .mset
  else if h == "handleMGet" then some .mget
  else if h == "handleScan" then some .scan
  else if h == "handleHotKey" then some .hotkey
  else if h == "handlePing" then some .ping
  else if h == "handleQuit" then some .quit
  else if h == "handleInfo" then some .info
  else if h == "handleTime" then some .time
  else if h == "handleSelect" then some .select
  else none

/-- the handler table built by `initCommandHandlers` (later registrations overwrite earlier ones) -/
def handlerOf (lname : Bytes) : Option Kind :=
  match Gen.Commands.specialHandlers.find? (fun p => p.1 == lname) with
  | some (_, h) => kindOfHandler h
  | none =>
    if Gen.Commands.sumResultCommands.contains lname then kindOfHandler Gen.Commands.sumResultHandler
    else if Gen.Commands.simpleCommands.contains lname then kindOfHandler Gen.Commands.simpleHandler
    else none

inductive Out where
  | invalid                                   -- "-invalid request", nothing forwarded
  | unsupported                               -- "-ERR unsupported command '…'", nothing forwarded
  | answered (k : Kind)                       -- answered by the proxy itself
  | scan                                      -- SCAN: see C18
  | forward (children : List (Bytes × Nat))   -- (command name sent to the backend, index of its routing key in the request)
  deriving DecidableEq, Repr

def setName : Bytes := [115, 101, 116]
def getName : Bytes := [103, 101, 116]

/-- `handleRequest` + the handler, on a request whose arguments are all bulk strings;
`n` = number of elements of the request array (≥ 1), `name` = element 0 -/
def dispatch (name : Bytes) (n : Nat) : Out :=
  if n = 0 then .invalid else
  match handlerOf (asciiLower name) with
  | none => .unsupported
  | some .simple => if n < 2 then .invalid else .forward [(name, 1)]
  | some .eval => if n < 4 then .invalid else .forward [(name, 3)]
  | some .sum => if n < 2 then .invalid else .forward ((List.range (n - 1)).map fun i => (name, i + 1))
  | some .mset => if n = 1 ∨ n % 2 ≠ 1 then .invalid else .forward ((List.range (n / 2)).map fun i => (setName, 2 * i + 1))
  | some .mget => if n < 2 then .invalid else .forward ((List.range (n - 1)).map fun i => (getName, i + 1))
  | some .scan => if n < 2 then .invalid else .scan
  | some k => .answered k

/-- `simpleRequest.IsReadOnly` -/
def isReadOnly (childName : Bytes) : Bool := Gen.Commands.readOnlyCommands.contains (asciiLower childName)

inductive Strategy where
  | master | replica | both
  deriving DecidableEq, Repr

inductive Role where
  | M   -- the master owning the key's slot
  | R   -- a replica of that master
  deriving DecidableEq, Repr

/-- the candidate list of `chooseHost` for a slot with an owner, as roles -/
def candidates (s : Strategy) (readOnly : Bool) (nReplicas : Nat) : List Role :=
  if !readOnly then [.M] else
  let c := match s with
    | .master => [Role.M]
    | .both => Role.M :: List.replicate nReplicas Role.R
    | .replica => List.replicate nReplicas Role.R
  if c.isEmpty then [.M] else c

end SamVerif.Dispatch
