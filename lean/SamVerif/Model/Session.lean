/-
C01 model: one downstream connection (`proc/redis/session.go`) as a labelled transition system,
and the pairing of replies with requests on a backend connection.

Session: the reader decodes request `k` (requests are numbered in the order their bytes arrive),
dispatches it (`handleRequest`: from here on it can complete at any moment, on any backend, in
any order relative to the others) and puts it on the bounded in-flight queue; the writer takes
the head of the queue, waits for its completion and writes its reply.

Backend connection: the writer encodes requests onto the wire one at a time and hands each to
the sent queue in the same order; the backend answers in wire order; the reader pairs the j-th
reply with the j-th request taken from the sent queue.
-/
namespace SamVerif.Session

structure Sess where
  cap : Nat                          -- capacity of the in-flight queue (32)
  nread : Nat := 0                   -- requests decoded so far: 0 … nread-1
  inHand : Option Nat := none        -- decoded and dispatched, not yet on the queue
  queue : List Nat := []
  waiting : Option Nat := none       -- the writer holds this request and waits for its completion
  completed : List Nat := []         -- requests whose reply has been set (in completion order)
  written : List Nat := []           -- replies written to the client, in order
deriving Repr

inductive Label
  | read                  -- decode the next request and dispatch it
  | enqueue               -- put it on the in-flight queue (blocks while the queue is full)
  | complete (id : Nat)   -- some backend (or the proxy itself) sets the reply of request id
  | take                  -- the writer takes the head of the queue
  | write                 -- the request it holds is complete: encode its reply
deriving Repr, DecidableEq

def step (s : Sess) : Label → Option Sess
  | .read => if s.inHand = none then some { s with inHand := some s.nread, nread := s.nread + 1 } else none
  | .enqueue =>
    match s.inHand with
    | some id => if s.queue.length < s.cap then some { s with inHand := none, queue := s.queue ++ [id] } else none
    | none => none
  | .complete id =>
    if id < s.nread ∧ id ∉ s.completed then some { s with completed := s.completed ++ [id] } else none
  | .take =>
    match s.waiting, s.queue with
    | none, id :: rest => some { s with waiting := some id, queue := rest }
    | _, _ => none
  | .write =>
    match s.waiting with
    | some id => if id ∈ s.completed then some { s with waiting := none, written := s.written ++ [id] } else none
    | none => none

def run (s : Sess) : List Label → Option Sess
  | [] => some s
  | l :: ls => match step s l with | some s' => run s' ls | none => none

/-- everything read, in order: written, then held by the writer, then queued, then in the reader's hand -/
def line (s : Sess) : List Nat := s.written ++ s.waiting.toList ++ s.queue ++ s.inHand.toList

/-! ### pairing on a backend connection -/

structure Wire where
  wire : List Nat := []        -- requests in the order they were encoded onto the connection
  inHand : Option Nat := none  -- encoded, not yet on the sent queue
  sent : List Nat := []        -- the sent queue (processingReqs)
  replies : Nat := 0           -- replies decoded so far
  paired : List (Nat × Nat) := []   -- (request, index of the reply it was given)
deriving Repr

inductive WLabel
  | encode (id : Nat)     -- the writer encodes request id (it has exactly one request in hand at a time)
  | handoff
  | pair                  -- the reader has decoded the next reply and takes the head of the sent queue
deriving Repr, DecidableEq

def wstep (w : Wire) : WLabel → Option Wire
  | .encode id => if w.inHand = none then some { w with wire := w.wire ++ [id], inHand := some id } else none
  | .handoff =>
    match w.inHand with
    | some id => some { w with inHand := none, sent := w.sent ++ [id] }
    | none => none
  | .pair =>
    match w.sent with
    | id :: rest => some { w with sent := rest, replies := w.replies + 1, paired := w.paired ++ [(id, w.replies)] }
    | [] => none

def wrun (w : Wire) : List WLabel → Option Wire
  | [] => some w
  | l :: ls => match wstep w l with | some w' => wrun w' ls | none => none

end SamVerif.Session
