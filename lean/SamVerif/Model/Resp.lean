/-
RESP values, the encoder, and the decoder of proc/redis/codec.go written once over
an abstract byte source `Src σ` (the reader primitives of proc/redis/bufio.go).

Two sources are provided:
  * `Stream`  — a plain byte list and the buffer size: the *specification*;
  * `Reader`  — window + chunks still to arrive + sticky error: what bufio.go does
                when the kernel fragments the stream into the given chunks.
Core Lean only (this file is linked into the driver).
-/
namespace SamVerif.Resp

abbrev Bytes := List UInt8

def CR : UInt8 := 13
def LF : UInt8 := 10
def SP : UInt8 := 32
def tPlus : UInt8 := 43    -- '+'
def tMinus : UInt8 := 45   -- '-'
def tColon : UInt8 := 58   -- ':'
def tDollar : UInt8 := 36  -- '$'
def tStar : UInt8 := 42    -- '*'

/-- `RespValue` of resp.go. `bulk none` / `arr none` are the null bulk string and
null array (Go: `Text == nil`, `Array == nil`); `some []` are the empty ones. -/
inductive Resp where
  | int (i : Int)
  | simple (t : Bytes)
  | err (t : Bytes)
  | bulk (t : Option Bytes)
  | arr (a : Option (List Resp))
  deriving Repr, Inhabited

/-! ### integers as decimal text (`strconv.FormatInt(i, 10)` / `strconv.ParseInt(s, 10, 64)`) -/

def digitChar (d : Nat) : UInt8 := UInt8.ofNat (48 + d)

/-- decimal digits of a natural number, most significant first -/
def natDigits (n : Nat) : Bytes :=
  if _h : n < 10 then [digitChar n] else natDigits (n / 10) ++ [digitChar (n % 10)]
termination_by n
decreasing_by omega

def itoa (i : Int) : Bytes :=
  match i with
  | .ofNat n => natDigits n
  | .negSucc n => tMinus :: natDigits (n + 1)

def isDigit (c : UInt8) : Bool := 48 ≤ c && c ≤ 57

def parseDigits (b : Bytes) : Nat := b.foldl (fun acc c => acc * 10 + (c.toNat - 48)) 0

def minInt64 : Int := -9223372036854775808
def maxInt64 : Int := 9223372036854775807

/-- `strconv.ParseInt(s, 10, 64)`: optional sign, at least one digit, only digits,
value in the int64 range. `btoi64` agrees with it (its fast path is an optimisation). -/
def parseSigned (neg : Bool) (ds : Bytes) : Option Int :=
  if ds.isEmpty || !ds.all isDigit then none
  else
    let v : Int := if neg then -((parseDigits ds : Nat) : Int) else ((parseDigits ds : Nat) : Int)
    if minInt64 ≤ v ∧ v ≤ maxInt64 then some v else none

def parseInt64 : Bytes → Option Int
  | [] => none
  | c :: rest =>
    if c == tMinus then parseSigned true rest
    else if c == tPlus then parseSigned false rest
    else parseSigned false (c :: rest)

/-! ### encoder (codec.go `encoder.encode`) -/

def crlf : Bytes := [CR, LF]

mutual
def encode : Resp → Bytes
  | .int i => tColon :: (itoa i ++ crlf)
  | .simple t => tPlus :: (t ++ crlf)
  | .err t => tMinus :: (t ++ crlf)
  | .bulk none => tDollar :: (itoa (-1) ++ crlf)
  | .bulk (some t) => tDollar :: (itoa t.length ++ crlf ++ t ++ crlf)
  | .arr none => tStar :: (itoa (-1) ++ crlf)
  | .arr (some vs) => tStar :: (itoa vs.length ++ crlf ++ encodeList vs)
def encodeList : List Resp → Bytes
  | [] => []
  | v :: vs => encode v ++ encodeList vs
end

/-! ### abstract byte source -/

/-- The reader primitives the decoder uses. `none` is any error (the decoder's error
is sticky, so the state after an error is never used). -/
structure Src (σ : Type) where
  peek : σ → Option (UInt8 × σ)
  readByte : σ → Option (UInt8 × σ)
  /-- `ReadSlice('\n')`: the line including LF; fails when it does not fit the buffer -/
  readSlice : σ → Option (Bytes × σ)
  /-- `ReadBytes('\n')`: the line including LF, any length -/
  readBytes : σ → Option (Bytes × σ)
  /-- `ReadFull(n)` -/
  readFull : Nat → σ → Option (Bytes × σ)

def maxArrayLen : Nat := 1024 * 1024
def maxBulkStringLen : Nat := 1024 * 1024 * 512
/-- non-empty arrays nest at most this deep (codec.go `maxArrayDepth`) -/
def maxArrayDepth : Nat := 32
/-- longest line `ReadBytes` accepts, delimiter included (bufio.go `maxLineLen`) -/
def maxLineLen : Nat := 64 * 1024

/-- strip the trailing CR LF of a line returned by readSlice/readBytes -/
def stripCRLF (line : Bytes) : Option Bytes :=
  if line.length < 2 then none
  else if line.getD (line.length - 2) 0 != CR then none
  else some (line.take (line.length - 2))

/-- split an inline command on single spaces, dropping empty tokens -/
def splitOnSP : Bytes → List Bytes
  | [] => [[]]
  | c :: rest =>
    match splitOnSP rest with
    | [] => [[]]
    | t :: ts => if c == SP then [] :: t :: ts else (c :: t) :: ts

def splitSpaces (b : Bytes) : List Bytes :=
  (splitOnSP b).filter (fun t => !t.isEmpty)

section Decode
variable {σ : Type} (S : Src σ)

def decodeInt (st : σ) : Option (Int × σ) := do
  let (line, st) ← S.readSlice st
  let body ← stripCRLF line
  let n ← parseInt64 body
  pure (n, st)

def decodeText (st : σ) : Option (Bytes × σ) := do
  let (line, st) ← S.readBytes st
  let body ← stripCRLF line
  pure (body, st)

def decodeBulk (st : σ) : Option (Option Bytes × σ) := do
  let (n, st) ← decodeInt S st
  if n < -1 then none
  else if n > maxBulkStringLen then none
  else if n == -1 then pure (none, st)
  else
    let k := n.toNat
    let (b, st) ← S.readFull (k + 2) st
    if b.getD k 0 != CR || b.getD (k + 1) 0 != LF then none
    else pure (some (b.take k), st)

/-- decode `k` values in sequence with the given single-value decoder -/
def decodeN (dec : σ → Option (Resp × σ)) : Nat → σ → Option (List Resp × σ)
  | 0, st => some ([], st)
  | k + 1, st => do
    let (v, st) ← dec st
    let (vs, st) ← decodeN dec k st
    pure (v :: vs, st)

def decodeInline (st : σ) : Option (Resp × σ) := do
  let (b, st) ← decodeText S st
  let toks := splitSpaces b
  if toks.isEmpty then none
  else pure (.arr (some (toks.map (fun t => .bulk (some t)))), st)

/-- `decoder.decode`; `fuel` bounds the nesting depth (each level consumes a byte, so
`input length + 1` is always enough). -/
def decode : Nat → σ → Option (Resp × σ)
  | 0, _ => none
  | fuel + 1, st => do
    let (c, st1) ← S.peek st
    if c == tColon then
      let (_, st2) ← S.readByte st1
      let (n, st3) ← decodeInt S st2
      pure (.int n, st3)
    else if c == tPlus then
      let (_, st2) ← S.readByte st1
      let (t, st3) ← decodeText S st2
      pure (.simple t, st3)
    else if c == tMinus then
      let (_, st2) ← S.readByte st1
      let (t, st3) ← decodeText S st2
      pure (.err t, st3)
    else if c == tDollar then
      let (_, st2) ← S.readByte st1
      let (t, st3) ← decodeBulk S st2
      pure (.bulk t, st3)
    else if c == tStar then
      let (_, st2) ← S.readByte st1
      let (n, st3) ← decodeInt S st2
      if n < -1 then none
      else if n > maxArrayLen then none
      else if n == -1 then pure (.arr none, st3)
      else
        let (vs, st4) ← decodeN (decode fuel) n.toNat st3
        pure (.arr (some vs), st4)
    else decodeInline S st1

end Decode

/-! ### the specification source: a plain stream -/

structure Stream where
  size : Nat          -- reader buffer size
  data : Bytes

/-- split after the first LF -/
def splitLF : Bytes → Option (Bytes × Bytes)
  | [] => none
  | c :: rest =>
    if c == LF then some ([c], rest)
    else match splitLF rest with
      | none => none
      | some (l, r) => some (c :: l, r)

def streamSrc : Src Stream where
  peek s := match s.data with | [] => none | c :: _ => some (c, s)
  readByte s := match s.data with | [] => none | c :: r => some (c, { s with data := r })
  readSlice s := match splitLF s.data with
    | none => none
    | some (l, r) => if l.length ≤ s.size then some (l, { s with data := r }) else none
  readBytes s := match splitLF s.data with
    | none => none
    | some (l, r) => if l.length ≤ maxLineLen then some (l, { s with data := r }) else none
  readFull n s := if n ≤ s.data.length then some (s.data.take n, { s with data := s.data.drop n }) else none

/-- decode one message from a byte stream with reader buffer size `sz`; the fuel is the nesting
limit of the decoder: `decode` at fuel `maxArrayDepth + 1` accepts exactly the nestings codec.go
accepts (each non-empty array level consumes one unit) -/
def decodeStream (sz : Nat) (data : Bytes) : Option (Resp × Bytes) :=
  match decode streamSrc (maxArrayDepth + 1) ⟨sz, data⟩ with
  | none => none
  | some (v, s) => some (v, s.data)

/-- decode messages until the stream is exhausted or an error occurs.
Returns the messages and whether decoding stopped at a clean end of input. -/
def decodeAllStream (sz : Nat) : Nat → Bytes → List Resp × Bool
  | 0, _ => ([], false)
  | fuel + 1, data =>
    if data.isEmpty then ([], true)
    else match decodeStream sz data with
      | none => ([], false)
      | some (v, rest) =>
        let (vs, ok) := decodeAllStream sz fuel rest
        (v :: vs, ok)

/-! ### the implementation-shaped source: bufio.go's Reader over a chunked connection -/

structure Reader where
  size : Nat
  win : Bytes                -- buf[r:w]
  chunks : List Bytes        -- what the connection will deliver, one chunk per Read at most
  err : Bool                 -- sticky b.err
  deriving Repr

namespace Reader

/-- `fill` (called only when the window is smaller than the buffer): one `Read` into the free space -/
def fill (r : Reader) : Reader :=
  if r.err then r else
  match r.chunks with
  | [] => { r with err := true }                         -- io.EOF
  | c :: cs =>
    let room := r.size - r.win.length
    let rest := c.drop room
    { r with win := r.win ++ c.take room, chunks := if rest.isEmpty then cs else rest :: cs }

def peek (r : Reader) : Option (UInt8 × Reader) :=
  if r.err then none else
  let r := if r.win.isEmpty then fill r else r
  if r.err then none else
  match r.win with
  | [] => none
  | c :: _ => some (c, r)

def readByte (r : Reader) : Option (UInt8 × Reader) :=
  match peek r with
  | none => none
  | some (c, r) => some (c, { r with win := r.win.drop 1 })

/-- result of ReadSlice: a line, or "buffer full" with the fragment consumed, or error -/
inductive SliceRes where
  | line (l : Bytes) (r : Reader)
  | full (frag : Bytes) (r : Reader)
  | fail

def readSliceAux : Nat → Reader → SliceRes
  | 0, _ => .fail
  | fuel + 1, r =>
    match splitLF r.win with
    | some (l, rest) => .line l { r with win := rest }
    | none =>
      if r.win.length ≥ r.size then .full r.win { r with win := [] }
      else
        let r := fill r
        if r.err then .fail else readSliceAux fuel r

def remaining (r : Reader) : Nat := r.win.length + (r.chunks.map List.length).sum

def readSlice' (r : Reader) : SliceRes :=
  if r.err then .fail else readSliceAux (remaining r + 2) r

def readSlice (r : Reader) : Option (Bytes × Reader) :=
  match readSlice' r with
  | .line l r => some (l, r)
  | _ => none

def readBytesAux : Nat → Bytes → Reader → Option (Bytes × Reader)
  | 0, _, _ => none
  | fuel + 1, acc, r =>
    match readSlice' r with
    | .line l r => if (acc ++ l).length > maxLineLen then none else some (acc ++ l, r)
    | .full frag r => if (acc ++ frag).length > maxLineLen then none else readBytesAux fuel (acc ++ frag) r
    | .fail => none

def readBytes (r : Reader) : Option (Bytes × Reader) := readBytesAux (remaining r + 2) [] r

/-- `Read(p)` with `len p = n > 0`: returns the bytes delivered -/
def read (n : Nat) (r : Reader) : Option (Bytes × Reader) :=
  if r.err then none else
  if r.win.isEmpty then
    if n ≥ r.size then
      -- large read with an empty window goes straight to the connection
      match r.chunks with
      | [] => none
      | c :: cs =>
        let rest := c.drop n
        some (c.take n, { r with chunks := if rest.isEmpty then cs else rest :: cs })
    else
      let r := fill r
      if r.err then none else some (r.win.take n, { r with win := r.win.drop n })
  else some (r.win.take n, { r with win := r.win.drop n })

/-- `io.ReadFull(b, buf)` -/
def readFullAux : Nat → Nat → Bytes → Reader → Option (Bytes × Reader)
  | 0, _, _, _ => none
  | fuel + 1, need, acc, r =>
    if need = 0 then some (acc, r) else
    match read need r with
    | none => none
    | some (got, r) => readFullAux fuel (need - got.length) (acc ++ got) r

def readFull (n : Nat) (r : Reader) : Option (Bytes × Reader) :=
  if r.err || n = 0 then none else readFullAux (n + 1) n [] r

def src : Src Reader where
  peek := peek
  readByte := readByte
  readSlice := readSlice
  readBytes := readBytes
  readFull := readFull

end Reader

/-- decode every message the chunked connection delivers, as the session/client
loops do: stop at the first error. Returns messages and whether the end was clean
(error raised by the type-byte peek with nothing buffered). -/
def decodeAllReader : Nat → Reader → List Resp × Bool
  | 0, _ => ([], false)
  | fuel + 1, r =>
    if r.err then ([], false) else
    if r.win.isEmpty && r.chunks.isEmpty then ([], true)
    else match decode Reader.src (maxArrayDepth + 1) r with
      | none => ([], false)
      | some (v, r) =>
        let (vs, ok) := decodeAllReader fuel r
        (v :: vs, ok)

/-! ### canonical text of a value for the line protocol -/

def hexDigit (n : Nat) : Char :=
  if n < 10 then Char.ofNat (48 + n) else Char.ofNat (87 + n)

def hexOf (b : Bytes) : String :=
  if b.isEmpty then "-" else
  String.ofList (b.foldr (fun x acc => hexDigit (x.toNat / 16) :: hexDigit (x.toNat % 16) :: acc) [])

mutual
def render : Resp → String
  | .int i => s!"i{i}"
  | .simple t => s!"s{hexOf t}"
  | .err t => s!"e{hexOf t}"
  | .bulk none => "n"
  | .bulk (some t) => s!"b{hexOf t}"
  | .arr none => "N"
  | .arr (some vs) => "[" ++ renderList vs ++ "]"
def renderList : List Resp → String
  | [] => ""
  | [v] => render v
  | v :: vs => render v ++ "," ++ renderList vs
end

end SamVerif.Resp
