/-
C18 model: `handleScan` + `scanRequest` (request.go, handler.go) over the generated
cursor functions `Gen.Scan.parseCursor` / `genCursor`.
-/
import SamVerif.Model.Resp
import SamVerif.Gen.Scan
namespace SamVerif.Scan
open SamVerif SamVerif.Resp

/-- outcome of one SCAN request at the proxy -/
inductive Out where
  | local (r : Resp)                                   -- answered by the proxy itself
  | fwd (node : Nat) (body : List Bytes)              -- forwarded to hosts[node] with this argument list
  deriving Inhabited

def invalidRequest : Bytes := "invalid request".toUTF8.toList
def invalidCursor : Bytes := "invalid cursor".toUTF8.toList
def respScanTerm : Resp := .arr (some [.bulk (some [48]), .arr (some [])])

/-- `uint64(cursor)` of an int64 -/
def toU64 (v : Int) : BitVec 64 := BitVec.ofInt 64 v

/-- `strconv.ParseUint(s, 10, 64)`: at least one digit, only digits, value below 2^64. -/
def parseUint64 (b : Bytes) : Option Nat :=
  if b.isEmpty || !b.all isDigit then none
  else if parseDigits b < 2^64 then some (parseDigits b) else none

/-- `parseScanCursor`: the cursor as the unsigned number `Convert` writes; what is not one is read as before,
as a signed number that wraps around. -/
def parseScanCursor (c : Bytes) : Option (BitVec 64) :=
  match parseUint64 c with
  | some u => some (BitVec.ofNat 64 u)
  | none => (parseInt64 c).map toU64

/-- `newScanRequest` + `Convert` + the termination test of `handleScan`;
`args` are the arguments after the command name. -/
def request (nHosts : Nat) (cmd : Bytes) (args : List Bytes) : Out × BitVec 16 :=
  match args with
  | [] => (.local (.err invalidRequest), 0)
  | c :: rest =>
    match parseScanCursor c with
    | none => (.local (.err invalidCursor), 0)
    | some u =>
      let (idx, nc) := Gen.Scan.parseCursor u
      if Gen.Scan.pastLastNode idx nHosts then (.local respScanTerm, idx)
      else (.fwd idx.toNat (cmd :: natDigits nc.toNat :: rest), idx)

/-- the reply hook registered by `Convert`: rewrite the node's next cursor.
`none` would be a panic of the Go code; an empty array is left alone (repaired, F-11c). -/
def reply (idx : BitVec 16) (r : Resp) : Option Resp :=
  match r with
  | .arr (some []) => some r
  | .arr (some (first :: more)) =>
    let text : Bytes := match first with
      | .bulk (some t) => t
      | .simple t => t
      | .err t => t
      | _ => []
    match parseInt64 text with
    | none => some r
    | some v =>
      let idx' := if v == 0 then idx + 1 else idx
      let cur := natDigits (Gen.Scan.genCursor idx' (toU64 v)).toNat
      let first' : Resp := match first with
        | .bulk _ => .bulk (some cur)
        | .simple _ => .simple cur
        | .err _ => .err cur
        | .int i => .int i       -- Text of an integer value is ignored by the encoder
        | .arr a => .arr a
      some (.arr (some (first' :: more)))
  | _ => some r

/-! ### whole iterations over scripted nodes -/

/-- A backend node's SCAN as a script: `(cursor it is asked with, next cursor, keys)`,
looked up by the first matching entry. -/
abbrev Script := List (Nat × Nat × List Bytes)

def nodeScan (s : Script) (c : Nat) : Option (Nat × List Bytes) :=
  match s.find? (fun e => e.1 == c) with
  | some (_, next, keys) => some (next, keys)
  | none => none

/-- A backend node's SCAN as a partial function: cursor ↦ (next cursor, keys). -/
abbrev Node := Nat → Option (Nat × List Bytes)

def scanCmd : Bytes := [115, 99, 97, 110]

def nodeReply (next : Nat) (keys : List Bytes) : Resp :=
  .arr (some [.bulk (some (natDigits next)), .arr (some (keys.map (fun k => .bulk (some k))))])

/-- iterate from a client cursor, feeding each returned cursor back; returns the
client-visible cursors, all keys returned, and whether cursor 0 was reached -/
def iterate (nodes : List Node) : Nat → Bytes → List Bytes × List Bytes × Bool
  | 0, _ => ([], [], false)
  | fuel + 1, cursor =>
    match request nodes.length scanCmd [cursor] with
    | (.local (.arr (some [.bulk (some c), .arr (some ks)])), _) =>
      let keys := ks.filterMap (fun k => match k with | .bulk (some t) => some t | _ => none)
      ([c], keys, c == [48])
    | (.local _, _) => ([], [], false)
    | (.fwd node body, idx) =>
      match nodes[node]?, body with
      | some scan, [_, nc] =>
        match scan (parseDigits nc) with
        | none => ([], [], false)
        | some (next, keys) =>
          match reply idx (nodeReply next keys) with
          | some (.arr (some [.bulk (some c), _])) =>
            if c == [48] then ([c], keys, true)
            else
              let (cs, ks, ok) := iterate nodes fuel c
              (c :: cs, keys ++ ks, ok)
          | _ => ([], [], false)
      | _, _ => ([], [], false)

end SamVerif.Scan
