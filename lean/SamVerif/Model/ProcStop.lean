/-
C09: Stop of a Redis service (`proc/redis/redis.go`: Stop) against one downstream session
(`proc/redis/session.go`: loopRead, loopWrite, the 32-entry queue of requests in order) whose
backend does not answer.  The listener closes the session's connection and waits for its handler;
the upstream's Stop answers everything in flight.  A reader that waits for room in the queue, and a
writer that waits for a reply, do not read from the connection and do not notice that it was closed.
-/
namespace SamVerif.ProcStop

/-- where the session's reader is -/
inductive Rd
  | decode        -- in Decode: reading from the connection (it notices when the connection is closed)
  | room          -- has a request in hand, at the select: room in the queue / quit
  | exited
deriving Repr, DecidableEq

/-- where the session's writer is -/
inductive Wr
  | top           -- at the select: quit / a request from the queue
  | reply         -- holds the oldest request, at the select: its reply / quit
  | exited
deriving Repr, DecidableEq

/-- one downstream session of a Redis service whose backend does not answer, and the service's Stop -/
structure P where
  /-- the repaired Stop stops the upstream (which answers what is in flight) before the listener -/
  upstreamFirst : Bool
  cap : Nat                    -- the session's queue of requests in order (32)
  queued : Nat := 0            -- requests in the queue
  inHand : Bool := false       -- the reader holds a decoded request it has dispatched
  toRead : Nat                 -- requests the client has pipelined and the reader has not decoded yet
  answered : Bool := false     -- the upstream has been stopped: every dispatched request has its (error) reply
  connClosed : Bool := false
  quit : Bool := false         -- the session's quit latch
  rd : Rd := .decode
  wr : Wr := .top
  stopPc : Nat := 0            -- 0 not called; then the steps of Stop in order; 3 = returned
deriving Repr, DecidableEq

inductive Label
  | rDecode        -- the reader decodes and dispatches the next request
  | rEnqueue       -- puts it in the queue (room)
  | rSeesClose     -- Decode fails on the closed connection: the reader leaves, the connection and quit are closed
  | rQuit          -- at the select for room: quit
  | wTake | wReply | wQuit
  | wWriteFails    -- writing a reply to the closed connection fails: the writer leaves, quit is closed
  | stopUpstream   -- Stop: the upstream is stopped, whatever was dispatched is answered
  | stopListener   -- Stop: the listener closes the connection …
  | stopWaited     -- … and has waited for the session's handler (both loops gone)
deriving Repr, DecidableEq

def step (p : P) : Label → Option P
  | .rDecode =>
    if p.rd = .decode ∧ p.toRead > 0 ∧ p.connClosed = false then some { p with rd := .room, inHand := true, toRead := p.toRead - 1 } else none
  | .rEnqueue =>
    if p.rd = .room ∧ p.queued < p.cap then some { p with rd := .decode, inHand := false, queued := p.queued + 1 } else none
  | .rSeesClose =>
    if p.rd = .decode ∧ p.connClosed = true then some { p with rd := .exited, quit := true } else none
  | .rQuit => if p.rd = .room ∧ p.quit = true then some { p with rd := .exited } else none
  | .wTake => if p.wr = .top ∧ p.queued > 0 then some { p with wr := .reply, queued := p.queued - 1 } else none
  | .wReply =>
    -- the reply is there only once the upstream has answered (the backend never does)
    if p.wr = .reply ∧ p.answered = true ∧ p.connClosed = false then some { p with wr := .top } else none
  | .wWriteFails =>
    if p.wr = .reply ∧ p.answered = true ∧ p.connClosed = true then some { p with wr := .exited, quit := true } else none
  | .wQuit => if (p.wr = .top ∨ p.wr = .reply) ∧ p.quit = true then some { p with wr := .exited, quit := true } else none
  | .stopUpstream =>
    if (p.upstreamFirst = true ∧ p.stopPc = 0) ∨ (p.upstreamFirst = false ∧ p.stopPc = 2) then
      some { p with answered := true, stopPc := p.stopPc + 1 } else none
  | .stopListener =>
    if (p.upstreamFirst = true ∧ p.stopPc = 1) ∨ (p.upstreamFirst = false ∧ p.stopPc = 0) then
      some { p with connClosed := true, stopPc := p.stopPc + 1 } else none
  | .stopWaited =>
    if ((p.upstreamFirst = true ∧ p.stopPc = 2) ∨ (p.upstreamFirst = false ∧ p.stopPc = 1)) ∧ p.rd = .exited ∧ p.wr = .exited then
      some { p with stopPc := p.stopPc + 1 } else none

def run (p : P) : List Label → Option P
  | [] => some p
  | l :: ls => match step p l with | some p' => run p' ls | none => none

def returned (p : P) : Prop := p.stopPc = 3

/-- the labels of the service itself (everything but the client and the backend, who do nothing here) -/
def enabled (p : P) : List Label :=
  [.rDecode, .rEnqueue, .rSeesClose, .rQuit, .wTake, .wReply, .wWriteFails, .wQuit, .stopUpstream, .stopListener, .stopWaited].filter
    fun l => (step p l).isSome

end SamVerif.ProcStop
