/-
C19 model: the per-backend key counter of proc/redis/hotkey/counter.go (frequency list,
layer 1: a list of (frequency, FIFO of keys) nodes in ascending frequency) and the
collector's bounded descending insert / stale eviction (collector.go).
-/
namespace SamVerif.Hotkey

/-- frequency nodes in ascending frequency; keys of a node in arrival (FIFO) order -/
abbrev Nodes := List (Nat × List Nat)

structure Counter where
  cap : Nat
  nodes : Nodes
  deriving Repr, DecidableEq

def keysOf (ns : Nodes) : List Nat := (ns.map (·.2)).flatten
def size (ns : Nodes) : Nat := (keysOf ns).length
def lookup (ns : Nodes) (k : Nat) : Option Nat := (ns.find? (fun n => n.2.contains k)).map (·.1)

/-- promote `k` (tracked): remove it from its node, append it to the node of frequency+1
(created right after the current one if absent), drop the old node if it became empty -/
def promote (k : Nat) : Nodes → Nodes
  | [] => []
  | (f, ks) :: rest =>
    if ks.contains k then
      let ks' := ks.filter (· != k)
      let rest' := match rest with
        | (g, gs) :: more => if g = f + 1 then (g, gs ++ [k]) :: more else (f + 1, [k]) :: (g, gs) :: more
        | [] => [(f + 1, [k])]
      if ks'.isEmpty then rest' else (f, ks') :: rest'
    else (f, ks) :: promote k rest

/-- evict the oldest key of the lowest-frequency node -/
def evict : Nodes → Option Nodes
  | [] => none                                     -- nil dereference in the Go code (capacity 0)
  | (_, []) :: _ => none                           -- unreachable under the invariant
  | (f, _ :: ks) :: rest => some (if ks.isEmpty then rest else (f, ks) :: rest)

/-- admitKey a new key with frequency 1 -/
def admitKey (k : Nat) : Nodes → Nodes
  | (1, ks) :: rest => (1, ks ++ [k]) :: rest
  | ns => (1, [k]) :: ns

/-- `Counter.Incr`; `none` = the Go code panics -/
def incr (c : Counter) (k : Nat) : Option Counter :=
  if (keysOf c.nodes).contains k then some { c with nodes := promote k c.nodes }
  else if size c.nodes ≥ c.cap then
    match evict c.nodes with
    | none => none
    | some ns => some { c with nodes := admitKey k ns }
  else some { c with nodes := admitKey k c.nodes }

/-- `Counter.Latch`: the (key, count) pairs, then reset -/
def latch (c : Counter) : List (Nat × Nat) × Counter :=
  ((c.nodes.map (fun n => n.2.map (fun k => (k, n.1)))).flatten, { c with nodes := [] })

/-! ### collector: bounded descending insert and stale eviction -/

/-- an entry of the report: key name, heat value, last update minute -/
structure Hot where
  name : Nat
  val : Nat
  lut : Int
  deriving Repr, DecidableEq

/-- position found by `sort.Search(l, fun i => data[i].val <= key.val)` on a descending slice -/
def searchPos (data : List Hot) (v : Nat) : Nat := (data.takeWhile (fun h => h.val > v)).length

/-- `sortedHotKeys.Insert` -/
def insert (cap : Nat) (data : List Hot) (key : Hot) : List Hot :=
  let i := searchPos data key.val
  let l := data.length
  if i < l then
    -- shift right from i; the last element falls off when the slice is full
    let shifted := data.take i ++ key :: data.drop i
    if l < cap then shifted else shifted.take l
  else if l < cap then data ++ [key] else data

/-- `evictStale` after the repair: halve stale counters, drop zeros, restore the order
(stable sort by descending value = insertion of each into a fresh slice) -/
def halveStale (now : Int) (data : List Hot) : List Hot :=
  data.map (fun h => if now > h.lut ∧ h.val ≠ 0 then { h with val := h.val / 2, lut := now } else h)

def insertDesc (h : Hot) : List Hot → List Hot
  | [] => [h]
  | x :: xs => if x.val > h.val then x :: insertDesc h xs else h :: x :: xs

def sortDesc : List Hot → List Hot
  | [] => []
  | x :: xs => insertDesc x (sortDesc xs)

def evictStale (now : Int) (data : List Hot) : List Hot :=
  sortDesc ((halveStale now data).filter (fun h => h.val != 0))

/-- the behaviour before the repair: no re-sort -/
def evictStaleOld (now : Int) (data : List Hot) : List Hot :=
  (halveStale now data).filter (fun h => h.val != 0)

end SamVerif.Hotkey
