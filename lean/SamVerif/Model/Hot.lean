/-
C17 model: hot-restart frames (rpc.go) and the parent-side dispatch (hotrestart.go).
The dispatch is *interpreted from the generated facts* (Gen.Hotrestart): which handler a
request type selects and which calls the handler makes in which order.
-/
import SamVerif.Gen.Hotrestart
namespace SamVerif.Hot

abbrev Bytes := List UInt8

inductive Read where
  | ok (typ len : Nat) (data : Bytes)
  | err
  | panic
  deriving DecidableEq, Repr

/-- `readMessage` on a datagram/stream read of `dgram` (the kernel delivers at most
`bufSize` bytes into the zero-initialised buffer). Guard as repaired: `n-3 < Len`. -/
def readMsg (bufSize : Nat) (dgram : Bytes) : Read :=
  let n := min dgram.length bufSize
  let b := dgram.take bufSize
  if n < 3 then .err else
  let len := (b.getD 1 0).toNat * 256 + (b.getD 2 0).toNat
  if n - 3 < len then .err
  else if bufSize < 3 + len then .panic
  else .ok (b.getD 0 0).toNat len ((b.drop 3).take len)

/-- `readMessage` before the repair: the guard compared `len(b[2:n])` (= n-2) with the
declared length, and the slice `b[3:3+Len]` of the 4096-byte buffer could reach one byte
past what was received, or past the buffer (panic). Kept for the counterexample theorems. -/
def readMsgOld (bufSize : Nat) (dgram : Bytes) : Read :=
  let n := min dgram.length bufSize
  let b := dgram.take bufSize ++ List.replicate (bufSize - n) 0
  if n < 3 then .err else
  let len := (b.getD 1 0).toNat * 256 + (b.getD 2 0).toNat
  if n - 2 < len then .err
  else if bufSize < 3 + len then .panic
  else .ok (b.getD 0 0).toNat len ((b.drop 3).take len)

/-- `sendMessage` for a message whose `Len` field is `len` (≤ 65532) -/
def sendMsg (typ len : Nat) (data : Bytes) : Bytes :=
  let body := data.take len
  [UInt8.ofNat typ, UInt8.ofNat (len / 256), UInt8.ofNat (len % 256)] ++ body ++ List.replicate (len - body.length) 0

inductive Event where
  | act (name : String)
  | reply (typ : Nat)
  deriving DecidableEq, Repr

open Gen.Hotrestart in
/-- interpret a handler's call list: a constructor selects the reply, `sendMessage` sends
it, calls on the instance (and `kill`) are actions -/
def eventsOfCalls : List String → Option Nat → List Event
  | [], _ => []
  | c :: rest, pending =>
    match constructors.find? (fun k => k.1 == c) with
    | some (_, t, _) => eventsOfCalls rest (some t)
    | none =>
      if c == "sendMessage" then
        match pending with
        | some t => .reply t :: eventsOfCalls rest none
        | none => eventsOfCalls rest none
      else if instanceIface.contains c || c == "kill" then .act c :: eventsOfCalls rest pending
      else eventsOfCalls rest pending

open Gen.Hotrestart in
/-- what the parent does on a well-read request of type `typ` -/
def parentStep (typ : Nat) : List Event :=
  let h := match dispatch.find? (fun d => d.1 == typ) with
    | some (_, h) => h
    | none => dispatchDefault
  match handlerCalls.find? (fun k => k.1 == h) with
  | some (_, calls) => eventsOfCalls calls none
  | none => []

/-- the specification of the hand-over protocol -/
def specStep (typ : Nat) : List Event :=
  if typ = 1 then [.act "ShutdownAdmin", .reply 2]
  else if typ = 3 then [.act "ShutdownLocalConf", .reply 4]
  else if typ = 5 then [.act "DrainListeners", .reply 6]
  else if typ = 7 then [.reply 8, .act "kill"]
  else [.reply 9]

/-- one child connection: frames until it disappears; unreadable frames are skipped -/
def child (bufSize : Nat) (frames : List Bytes) : List Event :=
  frames.flatMap fun f =>
    match readMsg bufSize f with
    | .ok t _ _ => parentStep t
    | .err => []
    | .panic => [.act "PANIC"]

/-- the accept loop serves one child after the other -/
def parent (bufSize : Nat) (children : List (List Bytes)) : List Event :=
  children.flatMap (child bufSize)

/-! ### several frames in one read (since 0f56e69, F-17d) -/

/-- `parseMessage` (rpc.go): the frame at the start of `b` — type, declared length, payload — and what follows it -/
def parseMsg (b : Bytes) : Option ((Nat × Nat × Bytes) × Bytes) :=
  if b.length < 3 then none else
  let len := (b.getD 1 0).toNat * 256 + (b.getD 2 0).toNat
  if b.length < 3 + len then none
  else some (((b.getD 0 0).toNat, len, (b.drop 3).take len), b.drop (3 + len))

/-- `readMessages`' loop: every complete frame, in order, up to the first thing that is not a frame -/
def parseAll : Nat → Bytes → List (Nat × Nat × Bytes)
  | 0, _ => []
  | fuel + 1, b =>
    match parseMsg b with
    | none => []
    | some (m, rest) => if rest.isEmpty then [m] else m :: parseAll fuel rest

/-- one read of the control socket delivers at most `bufSize` bytes; every frame in it is a request of its own -/
def readMsgs (bufSize : Nat) (read : Bytes) : List (Nat × Nat × Bytes) :=
  parseAll (read.length + 1) (read.take bufSize)

/-- `handleChild` since 0f56e69: each read's frames are dispatched in order -/
def childReads (bufSize : Nat) (reads : List Bytes) : List Event :=
  reads.flatMap fun r => (readMsgs bufSize r).flatMap fun m => parentStep m.1

/-- the request frame a child sends for step `t` -/
def frame (t : Fin 256) : Bytes := sendMsg t.val 2 [123, 125]

end SamVerif.Hot
