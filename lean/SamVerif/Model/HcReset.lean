/-
C08/C15 model of `Monitor.ResetHealthCheck` (proc/internal/hc/monitor.go): which section is in force and which checker is in use after an update.
Tied to the code by the frozen statements of ResetHealthCheck, NewMonitor, tcpProc.OnSvcConfigUpdate and decodePayload (Props C08
`proc_config_update_matches_model`) and by `c08.hc int|atcp|rej`.
-/
namespace SamVerif.HcReset

/-- which checker a health check section asks for (`none`: the section has no checker, the TCP checker is the default) -/
inductive Kind | tcp | atcp | mysql | redis
deriving DecidableEq, Repr

structure Section where
  interval : Nat
  checker : Option Kind
  /-- can the checker the section asks for be built (an atcp action without payload cannot) -/
  buildable : Bool := true
  valid : Bool := true
deriving DecidableEq, Repr

/-- the monitor of a running TCP service: the section in force and the checker in use -/
structure Mon where
  cfg : Section
  inUse : Kind
deriving DecidableEq, Repr

def kindOf (s : Section) : Kind := s.checker.getD .tcp

inductive Res | ok | error | panic
deriving DecidableEq, Repr

/-- `Monitor.ResetHealthCheck` as repaired (14b5f8c, b695112) -/
def reset (m : Mon) (new : Section) : Mon × Res :=
  if !new.valid then (m, .error)
  else if new.checker = m.cfg.checker then ({ m with cfg := new }, .ok)
  else if !new.buildable then (m, .error)
  else ({ cfg := new, inUse := kindOf new }, .ok)

/-- before: the comparison was a method call on the section's checker (a nil interface when the section has none), and a checker
that could not be built left the TCP checker in use -/
def resetOld (m : Mon) (new : Section) : Mon × Res :=
  if !new.valid then (m, .error)
  else match new.checker with
    | none => (m, .panic)
    | some _ =>
      if new.checker = m.cfg.checker then ({ m with cfg := new }, .ok)
      else if !new.buildable then ({ m with inUse := .tcp }, .error)
      else ({ cfg := new, inUse := kindOf new }, .ok)

/-- the checker in use is the one the section in force asks for -/
def Consistent (m : Mon) : Prop := m.inUse = kindOf m.cfg

end SamVerif.HcReset
