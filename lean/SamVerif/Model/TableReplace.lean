/-
C09/C07 model: the connection table's entry for one backend address under requests, host-list replacement, connection loss and Stop
(`upstream.createClient`, `resetAllClients`, `removeEndedClient`, `Serve`).
Tied to the code by the frozen statements of createClient, removeClient/removeEndedClient (Props C04, C07), Serve (Props C09) and by `c09.replace`.
-/
namespace SamVerif.TableReplace

/-- the connection table's entry for one backend address, and the connections to it that exist -/
structure T where
  /-- `true`: the code before 00e042f — an ended connection removes whatever the table holds for its address -/
  old : Bool := false
  table : Option Nat := none   -- the connection the table holds for the address
  running : List Nat := []     -- connections whose loops run and that nobody has told to stop
  stopping : List Nat := []    -- told to stop (or lost their backend): their `Start` is about to return
  next : Nat := 0
deriving Repr

inductive Label
  | create            -- a request finds no entry: `createClient` makes a connection and puts it into the table
  | replaceAll        -- `resetAllClients`: the table is emptied, then the old connections are stopped
  | lost (id : Nat)   -- the backend closes connection id
  | ended (id : Nat)  -- `Start` of connection id has returned: it takes itself out of the table
  | stop              -- `Serve` after quit: every connection of the table is stopped
deriving DecidableEq, Repr

def step (s : T) : Label → Option T
  | .create => if s.table = none then some { s with table := some s.next, running := s.next :: s.running, next := s.next + 1 } else none
  | .replaceAll =>
    match s.table with
    | some id => some { s with table := none, running := s.running.filter (· != id), stopping := if id ∈ s.running then id :: s.stopping else s.stopping }
    | none => some s
  | .lost id => if id ∈ s.running then some { s with running := s.running.filter (· != id), stopping := id :: s.stopping } else none
  | .ended id =>
    if id ∈ s.stopping then
      some { s with stopping := s.stopping.filter (· != id),
                    table := if s.old then none else (if s.table = some id then none else s.table) }
    else none
  | .stop =>
    match s.table with
    | some id => some { s with running := s.running.filter (· != id), stopping := if id ∈ s.running then id :: s.stopping else s.stopping }
    | none => some s

def run (s : T) : List Label → Option T
  | [] => some s
  | l :: ls => match step s l with | some s' => run s' ls | none => none

end SamVerif.TableReplace
