/-
C01/C02 model: the write buffer of a downstream session (`session.loopWrite`): replies are encoded into a buffer which is flushed
when no further request is queued and — since the repair of F-01b — before the writer waits for an unanswered request.
Tied to the code by the frozen statements of `session.loopWrite` (Props/C01 `code_matches_model`) and by `c01.held`.
-/
namespace SamVerif.SessFlush

/-- where the session's writer (`session.loopWrite`) is -/
inductive Pc
  | idle                 -- at the top of the loop: takes the next request from the in-flight queue
  | holding (id : Nat)   -- took request id, has not looked at its completion yet
  | waiting (id : Nat)   -- found it unanswered (and, since F-01b, flushed): blocks until it completes
  | ready (id : Nat)     -- it is complete: encode its reply
deriving DecidableEq, Repr

structure W where
  /-- `true`: the code before 58f2ae2 (no flush before waiting) -/
  old : Bool := false
  queue : List Nat := []
  completed : List Nat := []
  buf : List Nat := []        -- replies encoded into the write buffer, not yet flushed
  sent : List Nat := []       -- replies the client can see
  pc : Pc := .idle
deriving Repr

inductive Label
  | enqueue (id : Nat)    -- the reader puts a request on the in-flight queue
  | complete (id : Nat)   -- a backend (or the proxy) answers it
  | take
  | look                  -- `select { case <-req.done: … default: Flush … }`
  | done                  -- the request waited for completes: the blocked writer goes on
  | encode                -- `enc.Encode(resp)`; `if len(processingReqs) == 0 { Flush }`
deriving DecidableEq, Repr

def step (s : W) : Label → Option W
  | .enqueue id => some { s with queue := s.queue ++ [id] }
  | .complete id => some { s with completed := id :: s.completed }
  | .take =>
    match s.pc, s.queue with
    | .idle, id :: rest => some { s with pc := .holding id, queue := rest }
    | _, _ => none
  | .look =>
    match s.pc with
    | .holding id =>
      if id ∈ s.completed then some { s with pc := .ready id }
      else if s.old then some { s with pc := .waiting id }
      else some { s with pc := .waiting id, sent := s.sent ++ s.buf, buf := [] }
    | _ => none
  | .done =>
    match s.pc with
    | .waiting id => if id ∈ s.completed then some { s with pc := .ready id } else none
    | _ => none
  | .encode =>
    match s.pc with
    | .ready id =>
      if s.queue.isEmpty then some { s with pc := .idle, sent := s.sent ++ s.buf ++ [id], buf := [] }
      else some { s with pc := .idle, buf := s.buf ++ [id] }
    | _ => none

def run (s : W) : List Label → Option W
  | [] => some s
  | l :: ls => match step s l with | some s' => run s' ls | none => none

/-- the writer cannot move by itself: it waits for a request to arrive or for an answer -/
def blocked (s : W) : Prop :=
  (s.pc = .idle ∧ s.queue = []) ∨ (∃ id, s.pc = .waiting id ∧ id ∉ s.completed)

end SamVerif.SessFlush
