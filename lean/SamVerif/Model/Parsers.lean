/-
C11 model: the parsers that read peer-controlled text besides the RESP decoder —
`client.handleResp` / `upstream.handleRedirection` (upstream.go) and `parseClusterNodes`
(slot.go). Every Go indexing or dereference that can panic is a checked access with an explicit
`panic` outcome; the `…Old` variants keep the behaviour before the repairs.
-/
import SamVerif.Model.Resp
namespace SamVerif.Parsers
open SamVerif.Resp (Bytes)

/-- `strings.Split(s, " ")` -/
def splitSP : Bytes → List Bytes
  | [] => [[]]
  | c :: rest =>
    match splitSP rest with
    | [] => [[]]
    | t :: ts => if c == 32 then [] :: t :: ts else (c :: t) :: ts

def asciiLower (b : Bytes) : Bytes := b.map fun c => if 65 ≤ c ∧ c ≤ 90 then c + 32 else c

/-- ASCII view of `bytes.EqualFold` / `strings.ToLower` (the non-ASCII corner, where the two
differ, is covered by the `unknown` outcome below) -/
def isWord (w : Bytes) (b : Bytes) : Bool := asciiLower b == w

def wMoved : Bytes := [109, 111, 118, 101, 100]
def wAsk : Bytes := [97, 115, 107]
def wClusterDown : Bytes := [99, 108, 117, 115, 116, 101, 114, 100, 111, 119, 110]

/-- what happens to a request whose backend reply is an error with this text -/
inductive RedirOut where
  | reply                      -- the error is handed to the client
  | movedTo (addr : Bytes)     -- resent to addr
  | askTo (addr : Bytes)       -- ASKING, then resent to addr
  | clusterDown                -- refresh triggered, error handed to the client
  | panic
  | lost                       -- neither answered nor resent
  deriving DecidableEq, Repr

/-- prefix up to the first space, as `handleResp` computes it (`nil` when there is no space) -/
def errPrefix (text : Bytes) : Bytes :=
  if text.contains 32 then text.takeWhile (· != 32) else []

/-- `handleResp` + `handleRedirection`, as repaired. `foldsOnly`: the prefix matches MOVED/ASK
under Unicode case folding but not after lower-casing (possible only with non-ASCII bytes). -/
def handleError (text : Bytes) (foldsOnly : Bool := false) : RedirOut :=
  let pre := errPrefix text
  if isWord wMoved pre || isWord wAsk pre || foldsOnly then
    let parts := splitSP text
    if parts.length < 3 then .reply
    else if foldsOnly then .reply
    else if isWord wMoved (parts.getD 0 []) then .movedTo (parts.getD 2 [])
    else if isWord wAsk (parts.getD 0 []) then .askTo (parts.getD 2 [])
    else .reply
  else if isWord wClusterDown pre then .clusterDown
  else .reply

/-- before the repairs: `err[2]` unchecked, no default branch -/
def handleErrorOld (text : Bytes) (foldsOnly : Bool := false) : RedirOut :=
  let pre := errPrefix text
  if isWord wMoved pre || isWord wAsk pre || foldsOnly then
    let parts := splitSP text
    if parts.length < 3 then .panic
    else if foldsOnly then .lost
    else if isWord wMoved (parts.getD 0 []) then .movedTo (parts.getD 2 [])
    else if isWord wAsk (parts.getD 0 []) then .askTo (parts.getD 2 [])
    else .lost
  else if isWord wClusterDown pre then .clusterDown
  else .reply

/-! ### CLUSTER NODES -/

/-- a line of the reply after `strings.Fields` -/
abbrev Line := List Bytes

inductive Nodes where
  | ok (masters : List (Bytes × List Nat × Nat))   -- (id, slots, number of replicas)
  | err
  | panic
  deriving DecidableEq, Repr

def isDigits (b : Bytes) : Bool := !b.isEmpty && b.all fun c => 48 ≤ c && c ≤ 57

/-- `strconv.Atoi` restricted to what matters here: optional sign, digits; values too large
for an int are an error -/
def atoi (b : Bytes) : Option Int :=
  match Resp.parseInt64 b with
  | some v => some v
  | none => none

def splitOn (sep : UInt8) : Bytes → List Bytes
  | [] => [[]]
  | c :: rest =>
    match splitOn sep rest with
    | [] => [[]]
    | t :: ts => if c == sep then [] :: t :: ts else (c :: t) :: ts

def slotNum : Nat := 16384

/-- `parseClusterNodesSlot`, as repaired (ranges are bounded by the slot space) -/
def parseSlots (bounded : Bool) : List Bytes → Option (List Nat)
  | [] => some []
  | seg :: rest =>
    if seg.head? == some 91 && seg.getLast? == some 93 then parseSlots bounded rest   -- [..] migrating/importing
    else
      match splitOn 45 seg with
      | [a, b] =>
        match atoi a, atoi b with
        | some s, some e =>
          if bounded && (s < 0 || e ≥ slotNum || s > e) then none
          else (parseSlots bounded rest).map fun more => ((List.range (e - s + 1).toNat).map fun (i : Nat) => (s + (i : Int)).toNat) ++ more
        | _, _ => none
      | [a] =>
        match atoi a with
        | some s => (parseSlots bounded rest).map fun more => s.toNat :: more
        | none => none
      | _ => none

/-- `isUsableReplica`: the flags column of a replica's line; "fail?" is only the answering node's suspicion -/
def usableReplica (flags : Bytes) : Bool :=
  !((splitOn 44 flags).any fun f =>
      f == [102, 97, 105, 108] || f == [110, 111, 97, 100, 100, 114] || f == [104, 97, 110, 100, 115, 104, 97, 107, 101])   -- fail, noaddr, handshake

/-- first pass of `parseClusterNodes`: per line (id, master id or none, slots).  A replica that is no candidate for reads (409502f) keeps
its line — a Go map entry under its id — but is attached to no master: its master id is recorded as the empty id, which no node has. -/
def parseLines (bounded : Bool) : List Line → Option (List (Bytes × Option Bytes × List Nat))
  | [] => some []
  | fields :: rest =>
    if fields.isEmpty then parseLines bounded rest
    else if fields.length < 8 then none
    else
      let addr := (splitOn 64 (fields.getD 1 [])).headD []
      if (splitOn 58 addr).length != 2 then none
      else if fields.getD 3 [] != [45] then
        (parseLines bounded rest).map fun more =>
          (fields.getD 0 [], some (if usableReplica (fields.getD 2 []) then fields.getD 3 [] else []), []) :: more
      else match parseSlots bounded (fields.drop 8) with   -- a master without slots has no ninth field
        | none => none
        | some slots => (parseLines bounded rest).map fun more => (fields.getD 0 [], none, slots) :: more

/-- second pass: attach replicas to their masters. `checked`: a replica whose master is not
listed is ignored (repaired); unchecked, the Go code dereferences nil. -/
def attach (checked : Bool) (insts0 : List (Bytes × Option Bytes × List Nat)) : Nodes :=
  -- `insts` is a Go map keyed by node id: a later line with the same id replaces an earlier one
  let insts := insts0.foldr (fun x acc => if acc.any (fun y => y.1 == x.1) then acc else x :: acc) []
  let ids := insts.map (·.1)
  let replicas := insts.filter (·.2.1.isSome)
  if !checked && replicas.any (fun r => !(ids.contains (r.2.1.getD []))) then .panic
  else
    .ok ((insts.filter (·.2.1.isNone)).map fun m =>
      (m.1, m.2.2, (replicas.filter fun r => r.2.1 == some m.1).length))

def parseClusterNodes (lines : List Line) : Nodes :=
  match parseLines true lines with
  | none => .err
  | some insts => attach true insts

def parseClusterNodesOld (lines : List Line) : Nodes :=
  match parseLines false lines with
  | none => .err
  | some insts => attach false insts

end SamVerif.Parsers
