/-
C20 model: the service-scoped connection and request statistics as counters moved by
events.  Two transition systems:

* `CState`/`cstep`: the listener's connection registry (`proc/listener.go` addConn /
  removeConn / Stop / Drain) together with the TCP processor's upstream connection
  counters (`proc/tcp/proc.go` HandleConn: dial, counters after the dial, deferred
  decrement).
* `RState`/`rstep`: Redis request statistics (`proc/redis/redis.go` handleRequest: total at
  dispatch, success/failure and the per-command pair in completion hooks;
  `proc/redis/upstream.go` MakeRequestToHost: total per call and one more hook per call, so a
  redirected request counts once per send and is settled once per send on completion).

Gauges are unsigned 64-bit integers in Go; they are `Int` here so that a wrap below zero is a
negative value instead of being invisible.
-/
namespace SamVerif.Stats

/-! ### keyed lists with a weight -/

/-- total weight of a keyed list under `f` (length: `f = 1`; hook sum: `f = id`; …) -/
def wsum {α} (f : α → Nat) : List (Nat × α) → Nat
  | [] => 0
  | p :: l => f p.2 + wsum f l

/-- remove the first entry with key `id` and return its value -/
def takeKey {α} (id : Nat) : List (Nat × α) → Option (α × List (Nat × α))
  | [] => none
  | p :: l =>
    if p.1 = id then some (p.2, l)
    else match takeKey id l with
      | some (a, l') => some (a, p :: l')
      | none => none

/-- add one to the value under `id`, inserting `1` when absent -/
def bump (id : Nat) : List (Nat × Nat) → List (Nat × Nat)
  | [] => [(id, 1)]
  | p :: l => if p.1 = id then (p.1, p.2 + 1) :: l else p :: bump id l

/-! ### connections -/

structure Cx where
  total : Nat := 0
  destroyed : Nat := 0
  active : Int := 0
deriving Repr, DecidableEq

structure CState where
  limit : Nat
  /-- the listener's registry (`l.conns`): `none` once Stop has cleared it -/
  reg : Option (List Nat)
  /-- handlers that hold an upstream connection (TCP HandleConn past the dial) -/
  ups : List Nat
  ds : Cx := {}
  restricted : Nat := 0
  us : Cx := {}
  connFail : Nat := 0

def cinit (limit : Nat) : CState := { limit := limit, reg := some [], ups := [] }

inductive CEv
  /-- a raw connection reaches `handleRawConn`; `hostOk`: a healthy host exists; `dialOk`: the dial succeeds -/
  | accept (id : Nat) (hostOk dialOk : Bool)
  /-- the handler of connection `id` returns (either side closed, host removed, or Stop closed it) -/
  | finish (id : Nat)
  | stop
  | drain
deriving Repr

def Cx.open (c : Cx) : Cx := { c with total := c.total + 1, active := c.active + 1 }
def Cx.close (c : Cx) (n : Nat := 1) : Cx := { c with destroyed := c.destroyed + n, active := c.active - n }

/-- `listener.connsLimit` -/
def limitHit (limit n : Nat) : Bool := !(limit == 0 || n < limit)

/-- `listener.removeConn` -/
def removeConn (s : CState) (id : Nat) : CState :=
  match s.reg with
  | none => s
  | some r => if id ∈ r then { s with reg := some (r.erase id), ds := s.ds.close } else s

def cstep (s : CState) : CEv → CState
  | .accept id hostOk dialOk =>
    match s.reg with
    | none => s                                            -- addConn: registry cleared, connection closed
    | some r =>
      if limitHit s.limit r.length then { s with restricted := s.restricted + 1 }
      else
        let s1 := { s with reg := some (id :: r), ds := s.ds.open }
        if !hostOk then removeConn s1 id                    -- HandleConn returns at once
        else if !dialOk then removeConn { s1 with connFail := s1.connFail + 1 } id
        else { s1 with us := s1.us.open, ups := id :: s1.ups }
  | .finish id =>
    let s1 := if id ∈ s.ups then { s with ups := s.ups.erase id, us := s.us.close } else s
    removeConn s1 id
  | .stop =>
    match s.reg with
    | none => s
    | some r => { s with reg := none, ds := s.ds.close r.length }   -- Stop settles what it takes out of the registry
  | .drain => s

def crun (s : CState) (evs : List CEv) : CState := evs.foldl cstep s

def regSize (s : CState) : Nat := (s.reg.getD []).length

/-- no connection in flight -/
def CState.quiescent (s : CState) : Prop := regSize s = 0 ∧ s.ups = []

/-! ### requests -/

structure Tri where
  total : Nat := 0
  ok : Nat := 0
  bad : Nat := 0
deriving Repr, DecidableEq

def Tri.settle (t : Tri) (err : Bool) (n : Nat := 1) : Tri :=
  if err then { t with bad := t.bad + n } else { t with ok := t.ok + n }

def Tri.balance (t : Tri) (inflight : Nat) : Prop := t.total = t.ok + t.bad + inflight

structure RState where
  /-- raw requests dispatched and not yet answered, with the command handler found (if any) -/
  raws : List (Nat × Option Nat) := []
  /-- simple requests handed to `MakeRequestToHost` and not yet answered, with the number of statistics hooks they carry -/
  sims : List (Nat × Nat) := []
  ds : Tri := {}
  us : Tri := {}
  cmd : Nat → Tri := fun _ => {}
  moved : Nat := 0

inductive REv
  | rawNew (id : Nat) (cmd : Option Nat)
  | rawDone (id : Nat) (err : Bool)
  | simSend (id : Nat)
  | simDone (id : Nat) (err : Bool)
  | moved
deriving Repr

def updCmd (f : Nat → Tri) (c : Nat) (g : Tri → Tri) : Nat → Tri := fun k => if k = c then g (f c) else f k

def rstep (s : RState) : REv → RState
  | .rawNew id cmd =>
    { s with raws := (id, cmd) :: s.raws, ds := { s.ds with total := s.ds.total + 1 },
             cmd := match cmd with
               | some c => updCmd s.cmd c (fun t => { t with total := t.total + 1 })
               | none => s.cmd }
  | .rawDone id err =>
    match takeKey id s.raws with
    | none => s
    | some (cmd, raws') =>
      { s with raws := raws', ds := s.ds.settle err,
               cmd := match cmd with
                 | some c => updCmd s.cmd c (fun t => t.settle err)
                 | none => s.cmd }
  | .simSend id => { s with sims := bump id s.sims, us := { s.us with total := s.us.total + 1 } }
  | .simDone id err =>
    match takeKey id s.sims with
    | none => s
    | some (h, sims') => { s with sims := sims', us := s.us.settle err h }
  | .moved => { s with moved := s.moved + 1 }

def rrun (s : RState) (evs : List REv) : RState := evs.foldl rstep s

def cmdWeight (c : Nat) (o : Option Nat) : Nat := if o = some c then 1 else 0

def RState.quiescent (s : RState) : Prop := s.raws = [] ∧ s.sims = []

/-! ### scripted request histories (what the differential runs through the real processor) -/

/-- command indices of the per-command statistics the harness reports -/
def cGet := 0
def cSet := 1
def cMGet := 2
def cMSet := 3
def cDel := 4
def cPing := 5

inductive Kind
  | invalid | unsupported | ping | bare      -- `bare`: "get" without a key (handler found, request rejected)
  | single (cmd : Nat)
  | mget | mset | del
deriving Repr, DecidableEq

/-- what the backend does with one send of a child request: the child's plan is a list of these -/
inductive Step
  | reply        -- a plain reply: final
  | fail         -- an error reply, a malformed MOVED, CLUSTERDOWN, a lost connection: final
  | moved        -- MOVED to another node: resent
  | movedDead    -- MOVED to an address nobody listens on: the resend fails
  | ask          -- ASK: ASKING (answered +OK) and a resend
  | askRefused   -- ASK: ASKING (answered with an error) and a resend
deriving Repr, DecidableEq

structure Req where
  kind : Kind
  plans : List (List Step)
deriving Repr

/-- replies for one child: events, next free id, whether the final reply is an error -/
def evalChild (sid : Nat) : List Step → Nat → List REv × Nat × Bool
  | [], fresh => ([.simDone sid false], fresh, false)
  | .reply :: _, fresh => ([.simDone sid false], fresh, false)
  | .fail :: _, fresh => ([.simDone sid true], fresh, true)
  | .moved :: rest, fresh =>
    let r := evalChild sid rest fresh
    (.moved :: .simSend sid :: r.1, r.2.1, r.2.2)
  | .movedDead :: _, fresh => ([.moved, .simSend sid, .simDone sid true], fresh, true)
  | .ask :: rest, fresh =>
    let r := evalChild sid rest (fresh + 1)
    (.simSend fresh :: .simSend sid :: .simDone fresh false :: r.1, r.2.1, r.2.2)
  | .askRefused :: rest, fresh =>
    let r := evalChild sid rest (fresh + 1)
    (.simSend fresh :: .simSend sid :: .simDone fresh true :: r.1, r.2.1, r.2.2)

/-- once the upstream has been told to quit every send is refused at once -/
def evalChildQ (quit : Bool) (sid fresh : Nat) (plan : List Step) : List REv × Nat × Bool :=
  if quit then ([.simDone sid true], fresh, true) else evalChild sid plan fresh

def evalChildren (quit : Bool) : Nat → List (List Step) → List REv × Nat × Nat
  | fresh, [] => ([], fresh, 0)
  | fresh, p :: ps =>
    let r1 := evalChildQ quit fresh (fresh + 1) p
    let r2 := evalChildren quit r1.2.1 ps
    (.simSend fresh :: r1.1 ++ r2.1, r2.2.1, r2.2.2 + (if r1.2.2 then 1 else 0))

/-- events of one downstream request; `rid` also seeds the ids of its children -/
def evalReq (quit : Bool) (fresh : Nat) (r : Req) : List REv × Nat :=
  let rid := fresh
  match r.kind with
  | .invalid | .unsupported => ([.rawNew rid none, .rawDone rid true], fresh + 1)
  | .ping => ([.rawNew rid (some cPing), .rawDone rid false], fresh + 1)
  | .bare => ([.rawNew rid (some cGet), .rawDone rid true], fresh + 1)
  | .single c =>
    let ch := evalChildren quit (fresh + 1) [r.plans.headD []]
    (.rawNew rid (some c) :: ch.1 ++ [.rawDone rid (ch.2.2 != 0)], ch.2.1)
  | .mget =>
    let ch := evalChildren quit (fresh + 1) r.plans
    (.rawNew rid (some cMGet) :: ch.1 ++ [.rawDone rid false], ch.2.1)
  | .mset =>
    let ch := evalChildren quit (fresh + 1) r.plans
    (.rawNew rid (some cMSet) :: ch.1 ++ [.rawDone rid (ch.2.2 != 0)], ch.2.1)
  | .del =>
    let ch := evalChildren quit (fresh + 1) r.plans
    (.rawNew rid (some cDel) :: ch.1 ++ [.rawDone rid (ch.2.2 != 0)], ch.2.1)

/-- a script: requests, and `none` = the upstream is told to quit from here on -/
def evalScript : (quit : Bool) → (fresh : Nat) → List (Option Req) → List REv
  | _, _, [] => []
  | _, fresh, none :: rest => evalScript true fresh rest
  | quit, fresh, some r :: rest => (evalReq quit fresh r).1 ++ evalScript quit (evalReq quit fresh r).2 rest

end SamVerif.Stats
