/-
C09 model: the life cycle of a listener (`proc/listener.go`) as a labelled transition system, as
repaired (done closed on every return path of Serve and Stop waiting only for a Serve that
started; the listener published under the lock with quit/drain re-checked).

Threads: Serve (bind loop → publication → accept loop → wait for the handlers), one handler
per accepted connection, Stop, Drain, and the environment (the port being free or not, clients
closing).  A handler returns once its connection is closed — by the client, or by Stop; that
the protocol handlers (Redis session, TCP relay) do return then, whatever the backends do, is
what the differential run ties (and what three of the repairs were about).
-/
namespace SamVerif.Listener

inductive ServePc
  | notCalled | entered | checked | bound | serving | waitConns | returned
deriving Repr, DecidableEq

inductive StopPc
  | idle | quitClosed | regTaken | lnClosed | connsClosed | returned
deriving Repr, DecidableEq

inductive DrainPc
  | idle | drainClosed | finished
deriving Repr, DecidableEq

structure L where
  limit : Nat
  serve : ServePc := .notCalled
  started : Bool := false
  quit : Bool := false
  drain : Bool := false
  done : Bool := false
  /-- the listener object exists and is open: the port is held -/
  lnOpen : Bool := false
  lnPublished : Bool := false
  /-- the registry (`l.conns`); `none` once Stop has taken it -/
  reg : Option (List Nat) := some []
  /-- handler goroutines: connection, registered? -/
  handlers : List (Nat × Bool) := []
  /-- connections that are closed (by the proxy or by the client) -/
  closed : List Nat := []
  stopPc : StopPc := .idle
  /-- what Stop saw under the lock: Serve started? listener published? and the connections it took -/
  sawStarted : Bool := false
  sawLn : Bool := false
  taken : List Nat := []
  drainPc : DrainPc := .idle
  naccepted : Nat := 0
deriving Repr

inductive Label
  | serveEnter | seeQuit | checkOk | bindFail | bindOk | publish
  | accept            -- Accept returns a connection: a handler goroutine is started
  | acceptFail        -- Accept fails because the listener is closed: leave the accept loop
  | handlerAdd (id : Nat)    -- addConn: registry gone or limit reached → close and return; else register
  | handlerExit (id : Nat)   -- the connection is closed: the protocol handler returns, removeConn
  | connsDone
  | clientClose (id : Nat)
  | stopQuit | stopTake | stopLn | stopConns | stopWait
  | drainClose | drainLn
deriving Repr, DecidableEq

def limitHit (limit n : Nat) : Bool := !(limit == 0 || n < limit)

def step (s : L) : Label → Option L
  | .serveEnter => if s.serve = .notCalled then some { s with serve := .entered, started := true } else none
  | .seeQuit =>
    if s.serve = .entered ∧ (s.quit ∨ s.drain) then some { s with serve := .returned, done := true } else none
  | .checkOk => if s.serve = .entered ∧ ¬ s.quit ∧ ¬ s.drain then some { s with serve := .checked } else none
  | .bindFail => if s.serve = .checked then some { s with serve := .entered } else none
  | .bindOk => if s.serve = .checked then some { s with serve := .bound, lnOpen := true } else none
  | .publish =>
    if s.serve = .bound then
      some { s with serve := .serving, lnPublished := true, lnOpen := if s.quit ∨ s.drain then false else s.lnOpen }
    else none
  | .accept =>
    if s.serve = .serving ∧ s.lnOpen then
      some { s with handlers := (s.naccepted, false) :: s.handlers, naccepted := s.naccepted + 1 }
    else none
  | .acceptFail => if s.serve = .serving ∧ ¬ s.lnOpen then some { s with serve := .waitConns } else none
  | .handlerAdd id =>
    if (id, false) ∈ s.handlers then
      match s.reg with
      | none => some { s with handlers := s.handlers.erase (id, false), closed := id :: s.closed }
      | some r =>
        if limitHit s.limit r.length then some { s with handlers := s.handlers.erase (id, false), closed := id :: s.closed }
        else some { s with handlers := (id, true) :: s.handlers.erase (id, false), reg := some (id :: r) }
    else none
  | .handlerExit id =>
    if (id, true) ∈ s.handlers ∧ id ∈ s.closed then
      some { s with handlers := s.handlers.erase (id, true), reg := s.reg.map (·.erase id) }
    else none
  | .connsDone => if s.serve = .waitConns ∧ s.handlers = [] then some { s with serve := .returned, done := true } else none
  | .clientClose id => some { s with closed := id :: s.closed }
  | .stopQuit => if s.stopPc = .idle then some { s with stopPc := .quitClosed, quit := true } else none
  | .stopTake =>
    if s.stopPc = .quitClosed then
      some { s with stopPc := .regTaken, sawStarted := s.started, sawLn := s.lnPublished, taken := s.reg.getD [], reg := none }
    else none
  | .stopLn =>
    if s.stopPc = .regTaken then some { s with stopPc := .lnClosed, lnOpen := if s.sawLn then false else s.lnOpen } else none
  | .stopConns => if s.stopPc = .lnClosed then some { s with stopPc := .connsClosed, closed := s.taken ++ s.closed } else none
  | .stopWait =>
    if s.stopPc = .connsClosed ∧ (s.sawStarted = false ∨ s.done) then some { s with stopPc := .returned } else none
  | .drainClose => if s.drainPc = .idle then some { s with drainPc := .drainClosed, drain := true } else none
  | .drainLn =>
    if s.drainPc = .drainClosed then some { s with drainPc := .finished, lnOpen := if s.lnPublished then false else s.lnOpen } else none

def run (s : L) : List Label → Option L
  | [] => some s
  | l :: ls => match step s l with | some s' => run s' ls | none => none

def registered (s : L) : Nat := (s.reg.getD []).length

end SamVerif.Listener
