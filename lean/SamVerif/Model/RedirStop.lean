/-
C09/C02 model: Stop of the Redis upstream while the read loop of one backend connection (A) follows a redirection into the queue
of another connection (B) whose node reads but never answers (`client.handleResp` → `upstream.handleRedirection` →
`MakeRequestToHost` → `client.Send`), and `upstream.Serve` stops the connections one after the other.
Tied to the code by the frozen statements of Send/send, handleResp, handleRedirection, doSlotsRefresh, Serve and Stop (Props C02, C04,
C07, C09) and by `c09.redir f` / `g`.
-/
namespace SamVerif.RedirStop

/-- the read loop of backend connection A -/
inductive Rd
  | reading    -- waits for the next reply of node A (ends when its connection is closed: quit)
  | queuing    -- follows a redirection: inside `B.Send`, waiting for its turn (another sender's Send holds it and waits for room)
  | sending    -- inside `B.Send`, it is its turn: waiting for room in B's queue
  | exited
deriving DecidableEq, Repr

/-- `upstream.Serve` after quit: `for c in clients { c.Stop() }`, each Stop closing that connection's quit and waiting for its loops -/
inductive Pc
  | running
  | closeFirst | waitFirst | closeSecond | waitSecond
  | returned
deriving DecidableEq, Repr

structure S where
  /-- `true`: `Send` also gives up when the *sender's* connection is told to stop (`req.abort`, since 9cd2b0b) -/
  abort : Bool := true
  /-- the order in which the map iteration of Serve meets the two connections -/
  aFirst : Bool := true
  room : Nat := 0            -- free places in B's queue (node B reads but never answers: nothing ever frees one)
  rd : Rd := .reading
  pendingRedir : Nat := 0    -- MOVED replies of node A not yet handled
  aQuit : Bool := false
  bQuit : Bool := false
  bLoops : Bool := true      -- B's loops are running (they end when B is told to quit)
  pc : Pc := .running
  /-- a session's Send for node B has the turn and waits for room in B's queue -/
  held : Bool := false
  /-- `true`: the wait for the turn gives up like the wait for room (a channel and a select since 058c6b1; a mutex before) -/
  turnAbort : Bool := true
deriving Repr

inductive Label
  | reply          -- node A answers MOVED/ASK to B: the reader starts to resend
  | turn           -- nobody holds the turn any more
  | holderLeaves   -- the session's Send returns (room, or B has quit)
  | queueGivesUp   -- the wait for the turn ends because A or B has quit
  | enqueue        -- there is room in B's queue
  | targetQuit     -- B.Send returns because B has quit
  | aborted        -- B.Send returns because A itself has quit
  | readerExits
  | bExits
  | stop           -- Serve has seen quit and starts stopping the connections
  | close          -- closes the quit of the connection in hand
  | waited         -- its loops have ended
deriving DecidableEq, Repr

def first (s : S) : Bool := s.aFirst     -- is the connection in hand A?
def inHandIsA (s : S) : Bool :=
  match s.pc with
  | .closeFirst | .waitFirst => s.aFirst
  | .closeSecond | .waitSecond => !s.aFirst
  | _ => false

def step (s : S) : Label → Option S
  | .reply =>
    if s.rd = .reading ∧ s.aQuit = false ∧ 0 < s.pendingRedir then
      some { s with rd := if s.held then .queuing else .sending, pendingRedir := s.pendingRedir - 1 }
    else none
  | .turn => if s.rd = .queuing ∧ s.held = false then some { s with rd := .sending } else none
  | .holderLeaves =>
    if s.held = true ∧ s.bQuit = true then some { s with held := false }
    else if s.held = true ∧ 0 < s.room then some { s with held := false, room := s.room - 1 }
    else none
  | .queueGivesUp =>
    if s.rd = .queuing ∧ s.turnAbort = true ∧ (s.bQuit = true ∨ (s.abort = true ∧ s.aQuit = true)) then some { s with rd := .reading } else none
  | .enqueue => if s.rd = .sending ∧ 0 < s.room ∧ s.bQuit = false then some { s with rd := .reading, room := s.room - 1 } else none
  | .targetQuit => if s.rd = .sending ∧ s.bQuit = true then some { s with rd := .reading } else none
  | .aborted => if s.rd = .sending ∧ s.abort = true ∧ s.aQuit = true then some { s with rd := .reading } else none
  | .readerExits => if s.rd = .reading ∧ s.aQuit = true then some { s with rd := .exited } else none
  | .bExits => if s.bLoops = true ∧ s.bQuit = true then some { s with bLoops := false } else none
  | .stop => if s.pc = .running then some { s with pc := .closeFirst } else none
  | .close =>
    match s.pc with
    | .closeFirst => some (if s.aFirst then { s with aQuit := true, pc := .waitFirst } else { s with bQuit := true, pc := .waitFirst })
    | .closeSecond => some (if s.aFirst then { s with bQuit := true, pc := .waitSecond } else { s with aQuit := true, pc := .waitSecond })
    | _ => none
  | .waited =>
    match s.pc with
    | .waitFirst => if (if s.aFirst then s.rd = .exited else s.bLoops = false) then some { s with pc := .closeSecond } else none
    | .waitSecond => if (if s.aFirst then s.bLoops = false else s.rd = .exited) then some { s with pc := .returned } else none
    | _ => none

def run (s : S) : List Label → Option S
  | [] => some s
  | l :: ls => match step s l with | some s' => run s' ls | none => none

def pcRank : Pc → Nat
  | .running => 5 | .closeFirst => 4 | .waitFirst => 3 | .closeSecond => 2 | .waitSecond => 1 | .returned => 0

/-- what is left to do once stopping has begun -/
def mu (s : S) : Nat :=
  10 * pcRank s.pc + 3 * s.pendingRedir + (match s.rd with | .queuing => 3 | .sending => 2 | .reading => 1 | .exited => 0) + (if s.bLoops then 1 else 0) +
  (if s.held then 1 else 0)

end SamVerif.RedirStop
