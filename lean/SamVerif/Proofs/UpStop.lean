import SamVerif.Model.UpStop
/-! Helper lemmas for the upstream stop model. -/
namespace SamVerif.UpStop

def Late (s : SP) : Prop := s = .locked ∨ s = .stopping ∨ s = .returned

structure Inv (u : U) : Prop where
  fx : u.fixed = true
  stopper : u.mu = .stopper ↔ u.sp = .locked
  quitSet : u.sp ≠ .idle → u.quit = true
  bSnap : Late u.sp → u.bRunning = true → u.snapB = true
  aSnap : Late u.sp → u.aRunning = true → u.snapA = true
  ret : u.sp = .returned → u.aRunning = false ∧ u.bRunning = false

theorem inv_init : Inv { fixed := true } := by constructor <;> simp [Late]

theorem inv_step (u u' : U) (l : Label) (hi : Inv u) (hs : step u l = some u') : Inv u' := by
  obtain ⟨h0, h2, h3, h5, h6, h7⟩ := hi
  unfold Late at *
  cases l <;> simp only [step] at hs <;> (repeat' split at hs) <;> (try cases hs) <;>
    (constructor <;> simp_all [Late]) <;>
    (cases ha : u.aRunning <;> cases hb : u.bRunning <;> simp_all)


theorem inv_run (ls : List Label) : ∀ (u u' : U), Inv u → run u ls = some u' → Inv u' := by
  induction ls with
  | nil => intro u u' hi h; simp [run] at h; subst h; exact hi
  | cons l ls ih =>
    intro u u' hi h
    simp only [run] at h
    cases hs : step u l with
    | none => simp [hs] at h
    | some u1 => simp only [hs] at h; exact ih u1 u' (inv_step u u1 l hi hs) h

def internal : Label → Bool
  | .redirect | .stopQuit => false
  | _ => true

def b2n (b : Bool) : Nat := if b then 1 else 0

/-- what is left to do once Stop has been called -/
def mu (u : U) : Nat :=
  (match u.rl with | .checked => 3 | .dialing => 2 | _ => 0) +
  (match u.sp with | .idle => 5 | .quitClosed => 4 | .locked => 3 | .stopping => 2 | .returned => 0) +
  b2n u.aRunning + b2n u.bRunning

theorem internal_decreases (u u' : U) (l : Label) (hl : internal l = true) (hs : step u l = some u') : mu u' < mu u := by
  cases l <;> simp [internal] at hl <;> simp only [step] at hs <;> (repeat' split at hs) <;> (try cases hs) <;>
    (simp_all [mu, b2n]) <;> (try (cases hb : u.bRunning <;> simp_all)) <;> (try omega) <;>
    (try (rename_i h1 _; rcases h1.1 with e | e <;> rw [e] <;> decide))

def stopCalled (s : SP) : Prop := s ≠ .idle

theorem stopCalled_stays (u u' : U) (l : Label) (h : stopCalled u.sp) (hs : step u l = some u') : stopCalled u'.sp := by
  unfold stopCalled at *
  cases l <;> simp only [step] at hs <;> (repeat' split at hs) <;> (try cases hs) <;> simp_all

/-- after Stop has been called, the repaired upstream always has a step of its own until Stop has returned -/
theorem progress (u : U) (hi : Inv u) (hc : stopCalled u.sp) (hn : u.sp ≠ .returned) :
    ∃ l, internal l = true ∧ (step u l).isSome = true := by
  obtain ⟨h0, h2, h3, h5, h6, h7⟩ := hi
  have hfree : u.sp ≠ .locked → u.mu = .free := by
    intro hne
    cases hmu : u.mu with
    | free => rfl
    | stopper => exact absurd (h2.mp hmu) hne
  cases hsp : u.sp with
  | idle => exact absurd hsp hc
  | returned => exact absurd hsp hn
  | quitClosed => exact ⟨.stopLock, rfl, by simp [step, hsp, hfree (by rw [hsp]; intro h; cases h)]⟩
  | locked => exact ⟨.stopUnlock, rfl, by simp [step, h0, hsp]⟩
  | stopping =>
    have hmu := hfree (by rw [hsp]; intro h; cases h)
    have hq : u.quit = true := h3 (by rw [hsp]; intro h; cases h)
    by_cases ha : u.snapA = true ∧ u.aRunning = true
    · cases hrl : u.rl with
      | idle => exact ⟨.stopA, rfl, by simp [step, hsp, ha.1, ha.2, hrl]⟩
      | done => exact ⟨.stopA, rfl, by simp [step, hsp, ha.1, ha.2, hrl]⟩
      | dialing => exact ⟨.dialDone, rfl, by simp [step, hrl, hmu, hq]⟩
      | checked => exact ⟨.rlLock, rfl, by simp [step, hrl, hmu, hq]⟩
    · by_cases hb : u.snapB = true ∧ u.bRunning = true
      · exact ⟨.stopB, rfl, by simp [step, hsp, hb.1, hb.2]⟩
      · refine ⟨.stopReturn, rfl, ?_⟩
        have ha' : u.snapA = true → u.aRunning = false := by
          intro h; cases hh : u.aRunning with
          | false => rfl
          | true => exact absurd ⟨h, hh⟩ ha
        have hb' : u.snapB = true → u.bRunning = false := by
          intro h; cases hh : u.bRunning with
          | false => rfl
          | true => exact absurd ⟨h, hh⟩ hb
        simp only [step, hsp, true_or, true_and]
        rw [if_pos ⟨ha', hb'⟩]; rfl

theorem wind_down (ls : List Label) : ∀ (u u' : U), Inv u → stopCalled u.sp → (∀ l ∈ ls, internal l = true) →
    run u ls = some u' → mu u' + ls.length ≤ mu u ∧ Inv u' ∧ stopCalled u'.sp := by
  induction ls with
  | nil => intro u u' hi hc _ h; simp [run] at h; subst h; exact ⟨by simp, hi, hc⟩
  | cons l ls ih =>
    intro u u' hi hc hint h
    simp only [run] at h
    cases hs : step u l with
    | none => simp [hs] at h
    | some u1 =>
      simp only [hs] at h
      have hd := internal_decreases u u1 l (hint l (by simp)) hs
      have := ih u1 u' (inv_step u u1 l hi hs) (stopCalled_stays u u1 l hc hs) (fun x hx => hint x (by simp [hx])) h
      exact ⟨by simp only [List.length_cons]; omega, this.2⟩

end SamVerif.UpStop
