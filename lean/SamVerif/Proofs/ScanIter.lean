/-
C18 helper lemmas: single steps of the SCAN iteration and the walk over one node's path.
-/
import SamVerif.Proofs.Scan
namespace SamVerif.Proofs.ScanIter
open SamVerif SamVerif.Gen.Scan SamVerif.Resp SamVerif.Scan SamVerif.Proofs.Resp SamVerif.Proofs.Scan

/-- the proxy's client-visible cursor for (node index, node cursor) -/
def packed (i c : Nat) : Bytes := natDigits (i * 2^48 + c)

theorem parseUint64_natDigits (n : Nat) (h : n < 2^64) : parseUint64 (natDigits n) = some n := by
  unfold parseUint64
  have h1 : (natDigits n).isEmpty = false := by
    cases hh : natDigits n with
    | nil => exact absurd hh (natDigits_ne_nil n)
    | cons a l => rfl
  rw [h1, natDigits_all_digit, parseDigits_natDigits]
  simp only [Bool.not_true, Bool.or_self, Bool.false_eq_true, ↓reduceIte, h]

theorem parseScanCursor_natDigits (n : Nat) (hlt : n < 2^64) :
    parseScanCursor (natDigits n) = some (BitVec.ofNat 64 n) := by
  have hp := parseUint64_natDigits _ hlt
  unfold parseScanCursor
  rw [hp]

/-- every cursor the proxy can hand out — node index up to 65535, node cursor below 2^48 — is read back -/
theorem parse_packed (i c : Nat) (hi : i ≤ 65535) (hc : c < 2^48) :
    parseScanCursor (packed i c) = some (BitVec.ofNat 64 (i * 2^48 + c)) :=
  parseScanCursor_natDigits (i * 2^48 + c) (by omega)

theorem parseCursor_packed (i c : Nat) (hi : i ≤ 65535) (hc : c < 2^48) :
    parseCursor (BitVec.ofNat 64 (i * 2^48 + c)) = (BitVec.ofNat 16 i, BitVec.ofNat 64 c) := by
  have h := parseCursor_toNat (BitVec.ofNat 64 (i * 2^48 + c))
  have hv : (BitVec.ofNat 64 (i * 2^48 + c)).toNat = i * 2^48 + c := by
    rw [BitVec.toNat_ofNat]
    apply Nat.mod_eq_of_lt; omega
  rw [hv] at h
  have e1 : (i * 2^48 + c) / 2^48 = i := by omega
  have e2 : (i * 2^48 + c) % 2^48 = c := by omega
  rw [e1, e2] at h
  have ha := congrArg Prod.fst h
  have hb := congrArg Prod.snd h
  simp only at ha hb
  apply Prod.ext
  · apply BitVec.eq_of_toNat_eq
    rw [ha, BitVec.toNat_ofNat]
    exact (Nat.mod_eq_of_lt (by omega)).symm
  · apply BitVec.eq_of_toNat_eq
    rw [hb, BitVec.toNat_ofNat]
    exact (Nat.mod_eq_of_lt (by omega)).symm

/-- the comparison is made on ints: any number of nodes, any node index a cursor can carry -/
theorem pastLast_ofNat (n i : Nat) (hi : i ≤ 65535) :
    pastLastNode (BitVec.ofNat 16 i) n = decide (n ≤ i) := by
  unfold pastLastNode
  have e2 : i % 2^16 = i := Nat.mod_eq_of_lt (by omega)
  rw [BitVec.toNat_ofNat, e2]

theorem request_term (n : Nat) (idx : BitVec 16) (nc : BitVec 64) (v : BitVec 64) (c : Bytes)
   (h1 : parseScanCursor c = some v) (h2 : parseCursor v = (idx, nc)) (h3 : pastLastNode idx n = true) :
    request n scanCmd [c] = (.local respScanTerm, idx) := by
  unfold request
  simp only [h1, h2, h3, ↓reduceIte]

theorem request_fwd (n : Nat) (idx : BitVec 16) (nc : BitVec 64) (v : BitVec 64) (c : Bytes)
   (h1 : parseScanCursor c = some v) (h2 : parseCursor v = (idx, nc)) (h3 : pastLastNode idx n = false) :
    request n scanCmd [c] = (.fwd idx.toNat [scanCmd, natDigits nc.toNat], idx) := by
  unfold request
  simp only [h1, h2, h3, Bool.false_eq_true, ↓reduceIte]

theorem request_packed_term (n i c : Nat) (hi : i ≤ 65535) (hc : c < 2^48) (h : n ≤ i) :
    request n scanCmd [packed i c] = (.local respScanTerm, BitVec.ofNat 16 i) :=
  request_term n _ _ _ _ (parse_packed i c hi hc) (parseCursor_packed i c hi hc)
    (by rw [pastLast_ofNat n i hi]; exact decide_eq_true h)

theorem request_packed_fwd (n i c : Nat) (hn : n ≤ 32767) (hi : i ≤ 32767) (hc : c < 2^48) (h : i < n) :
    request n scanCmd [packed i c] = (.fwd i [scanCmd, natDigits c], BitVec.ofNat 16 i) := by
  have e2 : (BitVec.ofNat 16 i).toNat = i := by
    rw [BitVec.toNat_ofNat]; exact Nat.mod_eq_of_lt (by omega)
  have e3 : (BitVec.ofNat 64 c).toNat = c := by
    rw [BitVec.toNat_ofNat]; exact Nat.mod_eq_of_lt (by omega)
  have := request_fwd n _ _ _ _ (parse_packed i c (by omega) hc) (parseCursor_packed i c (by omega) hc)
    (by rw [pastLast_ofNat n i (by omega)]; exact decide_eq_false (by omega))
  rw [e2, e3] at this
  exact this

theorem reply_node (i next : Nat) (keys : List Bytes) (hi : i + 1 ≤ 32767) (hn : next < 2^48) :
    reply (BitVec.ofNat 16 i) (nodeReply next keys) =
      some (.arr (some [.bulk (some (packed (if next = 0 then i + 1 else i) next)),
        .arr (some (keys.map (fun k => .bulk (some k))))])) := by
  unfold reply nodeReply
  have hp := parseInt64_itoa ((next : Nat) : Int) (by unfold minInt64; omega) (by unfold maxInt64; omega)
  simp only [itoa] at hp
  simp only [hp]
  have hu : toU64 ((next : Nat) : Int) = BitVec.ofNat 64 next := by unfold toU64; rw [BitVec.ofInt_natCast]
  have hnext : (BitVec.ofNat 64 next).toNat = next := by
    rw [BitVec.toNat_ofNat]; exact Nat.mod_eq_of_lt (by omega)
  by_cases h0 : next = 0
  · have hv : (((next : Nat) : Int) == 0) = true := by simp [h0]
    have hadd : (BitVec.ofNat 16 i + 1) = BitVec.ofNat 16 (i + 1) := by
      apply BitVec.eq_of_toNat_eq; simp [BitVec.toNat_add, BitVec.toNat_ofNat]
    have hg := genCursor_toNat (BitVec.ofNat 16 (i+1)) (BitVec.ofNat 64 next) (by rw [hnext]; exact hn)
    have e : (BitVec.ofNat 16 (i+1)).toNat = i + 1 := by
      rw [BitVec.toNat_ofNat]; exact Nat.mod_eq_of_lt (by omega)
    simp only [hv, ↓reduceIte, hu, hadd, hg, e, hnext, packed]
    simp only [h0, ↓reduceIte]
  · have hv : (((next : Nat) : Int) == 0) = false := by simp; omega
    have hg := genCursor_toNat (BitVec.ofNat 16 i) (BitVec.ofNat 64 next) (by rw [hnext]; exact hn)
    have e : (BitVec.ofNat 16 i).toNat = i := by
      rw [BitVec.toNat_ofNat]; exact Nat.mod_eq_of_lt (by omega)
    simp only [hv, Bool.false_eq_true, ↓reduceIte, hu, hg, e, hnext, h0, packed]


/-- The Redis SCAN guarantee for one node, as a hypothesis: starting at node cursor `c` and
feeding each returned cursor back, cursor 0 is returned by the `k`-th call, the calls
returning `keys` overall; every intermediate cursor is non-zero and below 2^48. -/
inductive Path (scan : Node) : Nat → List Bytes → Nat → Prop
  | last (c : Nat) (ks : List Bytes) : scan c = some (0, ks) → Path scan c ks 1
  | more (c n : Nat) (ks rest : List Bytes) (k : Nat) : scan c = some (n, ks) → n ≠ 0 → n < 2^48 →
      Path scan n rest k → Path scan c (ks ++ rest) (k + 1)

theorem packed_ne_zero (i c : Nat) (h : i ≠ 0 ∨ c ≠ 0) : (packed i c == [48]) = false := by
  have : packed i c ≠ [48] := by
    intro hp
    have := (natDigits_eq_zero_iff _).mp hp
    omega
  simpa using this

theorem iterate_fwd_generic (nodes : List Node) (cur nc c' : Bytes) (node : Nat) (idx : BitVec 16) (scan : Node)
    (next : Nat) (ks : List Bytes) (rest : Resp) (fuel : Nat)
    (h1 : request nodes.length scanCmd [cur] = (.fwd node [scanCmd, nc], idx))
    (h2 : nodes[node]? = some scan) (h3 : scan (parseDigits nc) = some (next, ks))
    (h4 : reply idx (nodeReply next ks) = some (.arr (some [.bulk (some c'), rest])))
    (h5 : (c' == [48]) = false) :
    iterate nodes (fuel + 1) cur =
      (c' :: (iterate nodes fuel c').1, ks ++ (iterate nodes fuel c').2.1, (iterate nodes fuel c').2.2) := by
  simp only [iterate, h1, h2, h3, h4, h5, Bool.false_eq_true, ↓reduceIte]

theorem iterate_term_generic (nodes : List Node) (cur : Bytes) (idx : BitVec 16) (fuel : Nat)
    (h1 : request nodes.length scanCmd [cur] = (.local respScanTerm, idx)) :
    iterate nodes (fuel + 1) cur = ([[48]], [], true) := by
  simp [iterate, h1, respScanTerm]

/-- one forwarded step of the iteration -/
theorem iterate_step (nodes : List Node) (hlen : nodes.length ≤ 32767) (i c : Nat) (hi : i < nodes.length)
    (hc : c < 2^48) (scan : Node) (hs : nodes[i]? = some scan) (n : Nat) (ks : List Bytes)
    (hscan : scan c = some (n, ks)) (hn : n < 2^48) (fuel : Nat) :
    iterate nodes (fuel + 1) (packed i c) =
      (packed (if n = 0 then i + 1 else i) n :: (iterate nodes fuel (packed (if n = 0 then i + 1 else i) n)).1,
        ks ++ (iterate nodes fuel (packed (if n = 0 then i + 1 else i) n)).2.1,
        (iterate nodes fuel (packed (if n = 0 then i + 1 else i) n)).2.2) := by
  have hne : (packed (if n = 0 then i + 1 else i) n == [48]) = false := by
    apply packed_ne_zero
    by_cases h0 : n = 0
    · left; simp [h0]
    · right; exact h0
  exact iterate_fwd_generic nodes _ _ _ i _ scan n ks _ fuel
    (request_packed_fwd nodes.length i c hlen (by omega) hc hi) hs
    (by rw [parseDigits_natDigits]; exact hscan) (reply_node i n ks (by omega) hn) hne

/-- walking one node's path, then continuing with the next node -/
theorem iterate_node (nodes : List Node) (hlen : nodes.length ≤ 32767) (i : Nat) (hi : i < nodes.length)
    (scan : Node) (hs : nodes[i]? = some scan) (ks' : List Bytes) (F : Nat)
    (hcont : ∀ fuel, F ≤ fuel → (iterate nodes fuel (packed (i + 1) 0)).2 = (ks', true)) :
    ∀ (c : Nat) (ks : List Bytes) (k : Nat), Path scan c ks k → c < 2^48 →
      ∀ fuel, k + F ≤ fuel → (iterate nodes fuel (packed i c)).2 = (ks ++ ks', true) := by
  intro c ks k hp
  induction hp with
  | last c ks hscan =>
    intro hc fuel hf
    obtain ⟨f, rfl⟩ : ∃ f, fuel = f + 1 := ⟨fuel - 1, by omega⟩
    rw [iterate_step nodes hlen i c hi hc scan hs 0 ks hscan (by omega) f]
    have := hcont f (by omega)
    simp only [↓reduceIte] 
    rw [Prod.ext_iff] at this
    simp only at this
    simp [this.1, this.2]
  | more c n ks rest k hscan hn0 hn _ ih =>
    intro hc fuel hf
    obtain ⟨f, rfl⟩ : ∃ f, fuel = f + 1 := ⟨fuel - 1, by omega⟩
    rw [iterate_step nodes hlen i c hi hc scan hs n ks hscan hn f]
    have := ih hn f (by omega)
    simp only [hn0, ↓reduceIte]
    rw [Prod.ext_iff] at this
    simp only at this
    simp [this.1, this.2]

theorem iterate_past_last (nodes : List Node) (hlen : nodes.length ≤ 32767) (fuel : Nat) (hf : 1 ≤ fuel) :
    (iterate nodes fuel (packed nodes.length 0)).2 = ([], true) := by
  obtain ⟨f, rfl⟩ : ∃ f, fuel = f + 1 := ⟨fuel - 1, by omega⟩
  rw [iterate_term_generic nodes _ _ f
    (request_packed_term nodes.length nodes.length 0 (by omega) (by omega) (Nat.le_refl _))]


/-- every node of the list satisfies the SCAN guarantee with the given keys / call count -/
inductive AllPaths : List Node → List (List Bytes × Nat) → Prop
  | nil : AllPaths [] []
  | cons {scan : Node} {p : List Bytes × Nat} {ns : List Node} {ps : List (List Bytes × Nat)} :
      Path scan 0 p.1 p.2 → AllPaths ns ps → AllPaths (scan :: ns) (p :: ps)

theorem iterate_suffix (nodes : List Node) (hlen : nodes.length ≤ 32767) :
    ∀ (suf : List Node) (paths : List (List Bytes × Nat)) (pre : List Node), nodes = pre ++ suf →
      AllPaths suf paths →
      ∀ fuel, (paths.map (·.2)).sum + 1 ≤ fuel →
        (iterate nodes fuel (packed pre.length 0)).2 = ((paths.map (·.1)).flatten, true) := by
  intro suf
  induction suf with
  | nil =>
    intro paths pre hnodes hp fuel hf
    cases hp
    have : pre.length = nodes.length := by rw [hnodes]; simp
    rw [this]
    simpa using iterate_past_last nodes hlen fuel (by omega)
  | cons scan suf' ih =>
    intro paths pre hnodes hp fuel hf
    cases hp with
    | cons hpath hrest =>
      rename_i p paths'
      have hi : pre.length < nodes.length := by rw [hnodes]; simp
      have hs : nodes[pre.length]? = some scan := by rw [hnodes]; simp
      have hcont := ih paths' (pre ++ [scan]) (by rw [hnodes]; simp) hrest
      simp only [List.length_append, List.length_singleton] at hcont
      have := iterate_node nodes hlen pre.length hi scan hs _ _ hcont 0 p.1 p.2 hpath (by omega) fuel
        (by simp only [List.map_cons, List.sum_cons] at hf; omega)
      simpa using this


end SamVerif.Proofs.ScanIter
