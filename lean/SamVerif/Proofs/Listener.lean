import SamVerif.Model.Listener
/-! Helper lemmas for C09: invariants of the listener life cycle. -/
namespace SamVerif.Listener

def earlyServe (p : ServePc) : Prop := p = .notCalled ∨ p = .entered ∨ p = .checked ∨ p = .bound

/-- simple state invariants, each closed under every step -/
structure Inv1 (s : L) : Prop where
  quitSet : s.stopPc ≠ .idle → s.quit = true
  openWhen : s.lnOpen = true → (s.serve = .bound ∨ s.serve = .serving)
  pubThen : s.lnPublished = true → (s.serve = .serving ∨ s.serve = .waitConns ∨ s.serve = .returned)
  servingPub : (s.serve = .serving ∨ s.serve = .waitConns) → s.lnPublished = true
  startedIff : s.started = true ↔ s.serve ≠ .notCalled
  notStarted : s.started = false → s.serve = .notCalled
  doneIff : s.done = true ↔ s.serve = .returned
  noHandlersEarly : earlyServe s.serve → s.handlers = []
  noHandlersEnd : s.serve = .returned → s.handlers = []
  regGone : (s.reg = none) ↔ (s.stopPc ≠ .idle ∧ s.stopPc ≠ .quitClosed)
  lnClosedByStop : s.quit = true → s.lnPublished = true → s.lnOpen = true →
      (s.stopPc = .quitClosed ∨ (s.stopPc = .regTaken ∧ s.sawLn = true))
  sawStartedOk : (s.stopPc ≠ .idle ∧ s.stopPc ≠ .quitClosed) → s.sawStarted = false →
      (s.serve = .notCalled ∨ s.serve = .entered ∨ s.serve = .returned)

theorem inv1_init (limit : Nat) : Inv1 { limit := limit } := by
  constructor <;> simp [earlyServe]

theorem inv1_step (s s' : L) (l : Label) (hi : Inv1 s) (hs : step s l = some s') : Inv1 s' := by
  obtain ⟨h1, h2, h3, h3b, h4, h4b, h5, h6, h7, h8, h9, h10⟩ := hi
  cases l with
  | handlerAdd id =>
    simp only [step] at hs
    by_cases hm : (id, false) ∈ s.handlers
    · have hne : s.handlers ≠ [] := List.ne_nil_of_mem hm
      have hnotEarly : ¬ earlyServe s.serve := fun h => hne (h6 h)
      have hnotRet : ¬ s.serve = .returned := fun h => hne (h7 h)
      rw [if_pos hm] at hs
      (repeat' split at hs) <;> (try cases hs) <;>
        (constructor <;> simp_all [earlyServe])
    · simp [hm] at hs
  | _ =>
    simp only [step] at hs <;> (repeat' split at hs) <;> (try cases hs) <;>
      (constructor <;> simp_all [earlyServe])

theorem inv1_run (ls : List Label) : ∀ (s s' : L), Inv1 s → run s ls = some s' → Inv1 s' := by
  induction ls with
  | nil => intro s s' hi h; simp [run] at h; subst h; exact hi
  | cons l ls ih =>
    intro s s' hi h
    simp only [run] at h
    cases hs : step s l with
    | none => simp [hs] at h
    | some s1 => simp only [hs] at h; exact ih s1 s' (inv1_step s s1 l hi hs) h


structure Inv4 (s : L) : Prop where
  stopRet : s.stopPc = .returned → (s.sawStarted = false ∨ s.done = true)
  drainSet : s.drainPc ≠ .idle → s.drain = true
  lnClosedByDrain : s.drain = true → s.lnPublished = true → s.lnOpen = true → s.drainPc = .drainClosed
  sawStartedLe : s.sawStarted = true → s.started = true

theorem inv4_init (limit : Nat) : Inv4 { limit := limit } := by
  constructor <;> simp

theorem inv4_step (s s' : L) (l : Label) (h0 : Inv1 s) (hi : Inv4 s) (hs : step s l = some s') : Inv4 s' := by
  obtain ⟨h1, h2, h3, h3c⟩ := hi
  have hp := h0.pubThen
  cases l <;> simp only [step] at hs <;> (repeat' split at hs) <;> (try cases hs) <;>
    (constructor <;> simp_all)

theorem inv4_run (ls : List Label) : ∀ (s s' : L), Inv1 s → Inv4 s → run s ls = some s' → Inv4 s' := by
  induction ls with
  | nil => intro s s' _ hi h; simp [run] at h; subst h; exact hi
  | cons l ls ih =>
    intro s s' h0 hi h
    simp only [run] at h
    cases hs : step s l with
    | none => simp [hs] at h
    | some s1 => simp only [hs] at h; exact ih s1 s' (inv1_step s s1 l h0 hs) (inv4_step s s1 l h0 hi hs) h

/-- every registered handler's connection is still in the registry, or closed, or among the
connections Stop has taken and is about to close -/
def Inv2 (s : L) : Prop :=
  ∀ id, (id, true) ∈ s.handlers →
    (∃ r, s.reg = some r ∧ id ∈ r) ∨ id ∈ s.closed ∨ ((s.stopPc = .regTaken ∨ s.stopPc = .lnClosed) ∧ id ∈ s.taken)

theorem inv2_init (limit : Nat) : Inv2 { limit := limit } := by
  intro id h; simp at h

theorem inv2_step (s s' : L) (l : Label) (hi : Inv2 s) (hs : step s l = some s') : Inv2 s' := by
  unfold Inv2 at *
  cases l with
  | handlerAdd a =>
    simp only [step] at hs
    by_cases hm : (a, false) ∈ s.handlers
    · rw [if_pos hm] at hs
      cases hr : s.reg with
      | none =>
        simp only [hr] at hs; injection hs with hs; subst hs
        intro id hid
        have := hi id (List.mem_of_mem_erase hid)
        simp only [hr] at this ⊢
        rcases this with ⟨r, h, _⟩ | h | h
        · cases h
        · exact Or.inr (Or.inl (List.mem_cons_of_mem _ h))
        · exact Or.inr (Or.inr h)
      | some r =>
        simp only [hr] at hs
        by_cases hl : limitHit s.limit r.length = true
        · rw [if_pos hl] at hs; injection hs with hs; subst hs
          intro id hid
          have := hi id (List.mem_of_mem_erase hid)
          simp only [hr] at this ⊢
          rcases this with h | h | h
          · exact Or.inl h
          · exact Or.inr (Or.inl (List.mem_cons_of_mem _ h))
          · exact Or.inr (Or.inr h)
        · rw [if_neg hl] at hs; injection hs with hs; subst hs
          intro id hid
          simp only [List.mem_cons, Prod.mk.injEq] at hid
          rcases hid with ⟨h1, _⟩ | hid
          · subst h1; exact Or.inl ⟨_, rfl, List.mem_cons_self⟩
          · have := hi id (List.mem_of_mem_erase hid)
            simp only [hr] at this
            rcases this with ⟨r', h, hm'⟩ | h | h
            · injection h with h; subst h
              exact Or.inl ⟨_, rfl, List.mem_cons_of_mem _ hm'⟩
            · exact Or.inr (Or.inl h)
            · exact Or.inr (Or.inr h)
    · simp [hm] at hs
  | handlerExit a =>
    simp only [step] at hs
    by_cases hc : (a, true) ∈ s.handlers ∧ a ∈ s.closed
    · rw [if_pos hc] at hs; injection hs with hs; subst hs
      intro id hid
      have := hi id (List.mem_of_mem_erase hid)
      by_cases hia : id = a
      · subst hia; exact Or.inr (Or.inl hc.2)
      · rcases this with ⟨r, h, hm⟩ | h | h
        · refine Or.inl ⟨r.erase a, by simp [h], ?_⟩
          exact (List.mem_erase_of_ne hia).mpr hm
        · exact Or.inr (Or.inl h)
        · exact Or.inr (Or.inr h)
    · simp [hc] at hs
  | accept =>
    simp only [step] at hs
    by_cases hc : s.serve = .serving ∧ s.lnOpen = true
    · rw [if_pos hc] at hs; injection hs with hs; subst hs
      intro id hid
      simp only [List.mem_cons, Prod.mk.injEq] at hid
      rcases hid with ⟨_, h⟩ | hid
      · cases h
      · exact hi id hid
    · simp [hc] at hs
  | clientClose a =>
    simp only [step] at hs; injection hs with hs; subst hs
    intro id hid
    rcases hi id hid with h | h | h
    · exact Or.inl h
    · exact Or.inr (Or.inl (List.mem_cons_of_mem _ h))
    · exact Or.inr (Or.inr h)
  | stopTake =>
    simp only [step] at hs
    by_cases hc : s.stopPc = .quitClosed
    · rw [if_pos hc] at hs; injection hs with hs; subst hs
      intro id hid
      rcases hi id hid with ⟨r, h, hm⟩ | h | h
      · exact Or.inr (Or.inr ⟨Or.inl rfl, by simp [h, hm]⟩)
      · exact Or.inr (Or.inl h)
      · rcases h.1 with h1 | h1 <;> rw [hc] at h1 <;> cases h1
    · simp [hc] at hs
  | stopLn =>
    simp only [step] at hs
    by_cases hc : s.stopPc = .regTaken
    · rw [if_pos hc] at hs; injection hs with hs; subst hs
      intro id hid
      rcases hi id hid with h | h | h
      · exact Or.inl h
      · exact Or.inr (Or.inl h)
      · exact Or.inr (Or.inr ⟨Or.inr rfl, h.2⟩)
    · simp [hc] at hs
  | stopConns =>
    simp only [step] at hs
    by_cases hc : s.stopPc = .lnClosed
    · rw [if_pos hc] at hs; injection hs with hs; subst hs
      intro id hid
      rcases hi id hid with h | h | h
      · exact Or.inl h
      · exact Or.inr (Or.inl (List.mem_append_right _ h))
      · exact Or.inr (Or.inl (List.mem_append_left _ h.2))
    · simp [hc] at hs
  | stopQuit =>
    simp only [step] at hs
    by_cases hc : s.stopPc = .idle
    · rw [if_pos hc] at hs; injection hs with hs; subst hs
      intro id hid
      rcases hi id hid with h | h | h
      · exact Or.inl h
      · exact Or.inr (Or.inl h)
      · rcases h.1 with h1 | h1 <;> rw [hc] at h1 <;> cases h1
    · simp [hc] at hs
  | stopWait =>
    simp only [step] at hs
    by_cases hc : s.stopPc = .connsClosed ∧ (s.sawStarted = false ∨ s.done = true)
    · rw [if_pos hc] at hs; injection hs with hs; subst hs
      intro id hid
      rcases hi id hid with h | h | h
      · exact Or.inl h
      · exact Or.inr (Or.inl h)
      · rcases h.1 with h1 | h1 <;> rw [hc.1] at h1 <;> cases h1
    · simp [hc] at hs
  | _ =>
    simp only [step] at hs <;> (repeat' split at hs) <;> (try cases hs) <;> exact hi

theorem inv2_run (ls : List Label) : ∀ (s s' : L), Inv2 s → run s ls = some s' → Inv2 s' := by
  induction ls with
  | nil => intro s s' hi h; simp [run] at h; subst h; exact hi
  | cons l ls ih =>
    intro s s' hi h
    simp only [run] at h
    cases hs : step s l with
    | none => simp [hs] at h
    | some s1 => simp only [hs] at h; exact ih s1 s' (inv2_step s s1 l hi hs) h

/-- the registry never exceeds the limit -/
def Inv3 (s : L) : Prop := 0 < s.limit → registered s ≤ s.limit

theorem inv3_step (s s' : L) (l : Label) (hi : Inv3 s) (hs : step s l = some s') : Inv3 s' ∧ s'.limit = s.limit := by
  unfold Inv3 registered at *
  cases l with
  | handlerAdd a =>
    simp only [step] at hs
    by_cases hm : (a, false) ∈ s.handlers
    · rw [if_pos hm] at hs
      cases hr : s.reg with
      | none => simp only [hr] at hs; injection hs with hs; subst hs; simpa [hr] using hi
      | some r =>
        simp only [hr] at hs
        by_cases hl : limitHit s.limit r.length = true
        · rw [if_pos hl] at hs; injection hs with hs; subst hs; simpa [hr] using hi
        · rw [if_neg hl] at hs; injection hs with hs; subst hs
          refine ⟨?_, rfl⟩
          intro hpos
          have hpos' : 0 < s.limit := hpos
          show (a :: r).length ≤ s.limit
          simp only [List.length_cons]
          by_cases hx : r.length < s.limit
          · omega
          · exfalso; apply hl
            have h0 : (s.limit == 0) = false := by simp; omega
            simp [limitHit, h0, hx]
    · simp [hm] at hs
  | handlerExit a =>
    simp only [step] at hs
    by_cases hc : (a, true) ∈ s.handlers ∧ a ∈ s.closed
    · rw [if_pos hc] at hs; injection hs with hs; subst hs
      refine ⟨?_, rfl⟩
      intro hpos
      have := hi hpos
      cases hr : s.reg with
      | none => simp
      | some r =>
        simp only [hr, Option.getD_some, Option.map_some] at this ⊢
        have := List.length_erase_le (a := a) (l := r)
        omega
    · simp [hc] at hs
  | _ =>
    simp only [step] at hs <;> (repeat' split at hs) <;> (try cases hs) <;> first | exact ⟨hi, rfl⟩ | (refine ⟨?_, rfl⟩; intro _; simp)

end SamVerif.Listener
