/-
C18 helper lemmas: the generated cursor functions as arithmetic on naturals.
-/
import SamVerif.Model.Scan
import SamVerif.Proofs.Resp
namespace SamVerif.Proofs.Scan
open SamVerif SamVerif.Gen.Scan SamVerif.Resp SamVerif.Proofs.Resp

theorem genCursor_toNat (i : BitVec 16) (c : BitVec 64) (hc : c.toNat < 2^48) :
    (genCursor i c).toNat = i.toNat * 2^48 + c.toNat := by
  unfold genCursor
  simp only [BitVec.toNat_or, BitVec.toNat_shiftLeft, BitVec.toNat_setWidth]
  have hi := i.isLt
  have h1 : i.toNat % 2^64 = i.toNat := Nat.mod_eq_of_lt (by omega)
  rw [h1, Nat.shiftLeft_eq]
  have h2 : i.toNat * 2^48 % 2^64 = i.toNat * 2^48 := Nat.mod_eq_of_lt (by omega)
  rw [h2]
  rw [← Nat.shiftLeft_eq, ← Nat.shiftLeft_add_eq_or_of_lt hc]

theorem parseCursor_toNat (u : BitVec 64) :
    ((parseCursor u).1.toNat, (parseCursor u).2.toNat) = (u.toNat / 2^48, u.toNat % 2^48) := by
  unfold parseCursor
  have hu := u.isLt
  simp only [BitVec.toNat_setWidth, BitVec.toNat_ushiftRight, BitVec.toNat_and, BitVec.toNat_ofNat,
    Nat.shiftRight_eq_div_pow]
  congr 1
  · apply Nat.mod_eq_of_lt; omega
  · exact Nat.and_two_pow_sub_one_eq_mod _ 48

theorem natDigits_eq_zero_iff (n : Nat) : natDigits n = [48] ↔ n = 0 := by
  constructor
  · intro h
    have := parseDigits_natDigits n
    rw [h] at this
    simpa [parseDigits] using this.symm
  · intro h; subst h; unfold natDigits; simp [digitChar]

end SamVerif.Proofs.Scan
