/-
C08 helper lemmas: set semantics of the endpoint updates and preservation of the convergence
invariant by each handler of the configuration store.
-/
import SamVerif.Model.Conf
namespace SamVerif.Proofs.Conf
open SamVerif.Conf

def SameSet (a b : List Nat) : Prop := ∀ x, x ∈ a ↔ x ∈ b

/-! ### set semantics of the endpoint list updates -/

theorem removeEps_mem : ∀ (rem eps : List Nat), eps.Nodup →
    (∀ x, x ∈ (removeEps eps rem).1 ↔ (x ∈ eps ∧ x ∉ rem)) ∧
    (∀ x, x ∈ (removeEps eps rem).2 ↔ (x ∈ eps ∧ x ∈ rem)) ∧ (removeEps eps rem).1.Nodup := by
  intro rem
  induction rem with
  | nil => intro eps hnd; simp [removeEps, hnd]
  | cons r rs ih =>
    intro eps hnd
    simp only [removeEps]
    by_cases hc : eps.contains r
    · simp only [hc, ↓reduceIte]
      have hr : r ∈ eps := by simpa using hc
      have hnd' : (eps.erase r).Nodup := hnd.erase r
      obtain ⟨h1, h2, h3⟩ := ih (eps.erase r) hnd'
      refine ⟨?_, ?_, h3⟩
      · intro x
        rw [h1 x, hnd.mem_erase_iff]
        simp only [List.mem_cons, not_or]
        constructor
        · intro ⟨⟨a, b⟩, c⟩; exact ⟨b, a, c⟩
        · intro ⟨a, b, c⟩; exact ⟨⟨b, a⟩, c⟩
      · intro x
        simp only [List.mem_cons]
        rw [h2 x, hnd.mem_erase_iff]
        constructor
        · intro h
          rcases h with h | ⟨⟨_, b⟩, c⟩
          · subst h; exact ⟨hr, Or.inl rfl⟩
          · exact ⟨b, Or.inr c⟩
        · intro ⟨a, b⟩
          by_cases hx : x = r
          · left; exact hx
          · right
            rcases b with b | b
            · exact absurd b hx
            · exact ⟨⟨hx, a⟩, b⟩
    · simp only [hc, Bool.false_eq_true, ↓reduceIte]
      have hr : r ∉ eps := by simpa using hc
      obtain ⟨h1, h2, h3⟩ := ih eps hnd
      refine ⟨?_, ?_, h3⟩
      · intro x
        rw [h1 x]
        simp only [List.mem_cons, not_or]
        constructor
        · intro ⟨a, b⟩; exact ⟨a, fun e => hr (e ▸ a), b⟩
        · intro ⟨a, _, c⟩; exact ⟨a, c⟩
      · intro x
        rw [h2 x]
        simp only [List.mem_cons]
        constructor
        · intro ⟨a, b⟩; exact ⟨a, Or.inr b⟩
        · intro ⟨a, b⟩
          rcases b with b | b
          · exact absurd (b ▸ a) hr
          · exact ⟨a, b⟩

theorem addEps_mem : ∀ (add eps : List Nat), eps.Nodup →
    (∀ x, x ∈ (addEps eps add).1 ↔ (x ∈ eps ∨ x ∈ add)) ∧
    (∀ x, x ∈ (addEps eps add).2 ↔ (x ∉ eps ∧ x ∈ add)) ∧ (addEps eps add).1.Nodup := by
  intro add
  induction add with
  | nil => intro eps hnd; simp [addEps, hnd]
  | cons a as ih =>
    intro eps hnd
    simp only [addEps]
    by_cases hc : eps.contains a
    · simp only [hc, ↓reduceIte]
      have ha : a ∈ eps := by simpa using hc
      obtain ⟨h1, h2, h3⟩ := ih eps hnd
      refine ⟨?_, ?_, h3⟩
      · intro x
        rw [h1 x]
        simp only [List.mem_cons]
        constructor
        · intro h; rcases h with h | h
          · exact Or.inl h
          · exact Or.inr (Or.inr h)
        · intro h; rcases h with h | h | h
          · exact Or.inl h
          · exact Or.inl (h ▸ ha)
          · exact Or.inr h
      · intro x
        rw [h2 x]
        simp only [List.mem_cons]
        constructor
        · intro ⟨p, q⟩; exact ⟨p, Or.inr q⟩
        · intro ⟨p, q⟩
          rcases q with q | q
          · exact absurd (q ▸ ha) p
          · exact ⟨p, q⟩
    · simp only [hc, Bool.false_eq_true, ↓reduceIte]
      have ha : a ∉ eps := by simpa using hc
      have hnd' : (eps ++ [a]).Nodup := by
        rw [List.nodup_append]
        refine ⟨hnd, by simp, ?_⟩
        intro x hx y hy
        simp only [List.mem_singleton] at hy
        subst hy
        exact fun e => ha (e ▸ hx)
      obtain ⟨h1, h2, h3⟩ := ih (eps ++ [a]) hnd'
      refine ⟨?_, ?_, h3⟩
      · intro x
        rw [h1 x]
        simp only [List.mem_append, List.mem_cons, List.not_mem_nil, or_false]
        constructor
        · intro h; rcases h with (h | h) | h
          · exact Or.inl h
          · exact Or.inr (Or.inl h)
          · exact Or.inr (Or.inr h)
        · intro h; rcases h with h | h | h
          · exact Or.inl (Or.inl h)
          · exact Or.inl (Or.inr h)
          · exact Or.inr h
      · intro x
        simp only [List.mem_cons]
        rw [h2 x]
        simp only [List.mem_append, List.mem_cons, List.not_mem_nil, or_false, not_or]
        constructor
        · intro h
          rcases h with h | ⟨⟨p, q⟩, r⟩
          · subst h; exact ⟨ha, Or.inl rfl⟩
          · exact ⟨p, Or.inr r⟩
        · intro ⟨p, q⟩
          by_cases hx : x = a
          · left; exact hx
          · right
            rcases q with q | q
            · exact absurd q hx
            · exact ⟨⟨p, hx⟩, q⟩


/-! ### the invariant: what the processors will be once the pending events are applied -/

def Good (sv : Option Svc) (p : Option Proc) : Prop :=
  match sv with
  | none => p = none
  | some sv =>
    match sv.cfg, sv.eps with
    | some c, some e =>
      e.Nodup ∧
      (if c.valid then ∃ pr, p = some pr ∧ pr.cfg = c ∧ SameSet pr.hosts e
       else p = none ∨ ∃ pr, p = some pr ∧ pr.cfg.valid = true ∧ SameSet pr.hosts e)
    | _, some e => e.Nodup ∧ p = none
    | _, none => p = none

def Inv (s : Store) (p : Procs) : Prop := ∀ n, Good (s n) (p n)

theorem inv_init : Inv (fun _ => none) (fun _ => none) := by intro n; simp [Good]

theorem eraseDups_mem (l : List Nat) (x : Nat) : x ∈ l.eraseDups ↔ x ∈ l := List.mem_eraseDups

theorem inv_depAdd (s : Store) (p : Procs) (n : Nat) (h : Inv s p) :
    Inv (depAdd s n).1 (drain p (depAdd s n).2) := by
  unfold depAdd
  cases hs : s n with
  | some sv => simpa [hs, drain] using h
  | none =>
    simp only [hs, drain, List.foldl_nil]
    intro m
    by_cases hm : m = n
    · subst hm
      have := h m; rw [hs] at this
      simp only [upd, ↓reduceIte, Good]; simpa [Good] using this
    · simp only [upd, hm, ↓reduceIte]; exact h m

theorem inv_depRemove (s : Store) (p : Procs) (n : Nat) (h : Inv s p) :
    Inv (depRemove s n).1 (drain p (depRemove s n).2) := by
  unfold depRemove
  cases hs : s n with
  | none => simpa [hs, drain] using h
  | some sv =>
    simp only [hs, drain, List.foldl_cons, List.foldl_nil, apply]
    intro m
    by_cases hm : m = n
    · subst hm; simp [upd, Good]
    · simp only [upd, hm, ↓reduceIte]; exact h m

theorem inv_cfgUpdate (s : Store) (p : Procs) (n : Nat) (c : Cfg) (h : Inv s p) :
    Inv (cfgUpdate s n c).1 (drain p (cfgUpdate s n c).2) := by
  unfold cfgUpdate
  cases hs : s n with
  | none => simpa [hs, drain] using h
  | some sv =>
    have hg := h n
    rw [hs] at hg
    obtain ⟨cfg0, eps0⟩ := sv
    cases eps0 with
    | none =>
      simp only [drain, List.foldl_nil]
      intro m
      by_cases hm : m = n
      · subst hm
        have : p m = none := by cases cfg0 <;> simpa [Good] using hg
        simp [upd, Good, this]
      · simp only [upd, hm, ↓reduceIte]; exact h m
    | some e =>
      -- every other service is untouched by events about n
      have other : ∀ (evs : List Event) (q : Procs), (∀ m, m ≠ n → q m = p m) → (∀ ev ∈ evs, ∀ m, m ≠ n → ∀ q', apply q' ev m = q' m) →
          ∀ m, m ≠ n → drain q evs m = p m := by
        intro evs
        induction evs with
        | nil => intro q hq _ m hm; exact hq m hm
        | cons ev rest ih =>
          intro q hq hev m hm
          simp only [drain, List.foldl_cons]
          apply ih (apply q ev)
          · intro m' hm'; rw [hev ev (by simp) m' hm' q]; exact hq m' hm'
          · intro ev' hev' m' hm' q'; exact hev ev' (by simp [hev']) m' hm' q'
          · exact hm
      have evN : ∀ (ev : Event), (ev = .config n c ∨ ev = .add n c e) → ∀ m, m ≠ n → ∀ q', apply q' ev m = q' m := by
        intro ev hev m hm q'
        rcases hev with hev | hev <;> subst hev
        · simp only [apply]; cases q' n with
          | none => rfl
          | some pr => split <;> simp [upd, hm]
        · simp only [apply]; cases q' n with
          | none => split <;> simp [upd, hm]
          | some pr => rfl
      intro m
      by_cases hm : m = n
      · subst hm
        simp only [upd, ↓reduceIte, Good]
        cases cfg0 with
        | none =>
          simp only [Good] at hg
          obtain ⟨hnd, hp⟩ := hg
          simp only [List.nil_append, drain, List.foldl_cons, List.foldl_nil, apply, hp]
          refine ⟨hnd, ?_⟩
          by_cases hv : c.valid
          · simp only [hv, ↓reduceIte, upd]
            exact ⟨_, rfl, rfl, fun x => eraseDups_mem e x⟩
          · simp only [hv, Bool.false_eq_true, ↓reduceIte]; left; exact hp
        | some old =>
          simp only [Good] at hg
          obtain ⟨hnd, hp⟩ := hg
          refine ⟨hnd, ?_⟩
          by_cases hov : old.valid
          · simp only [hov, ↓reduceIte] at hp ⊢
            obtain ⟨pr, hpr, hcfg, hhosts⟩ := hp
            by_cases hv : c.valid
            · have hd : drain p ([Event.config m c] ++ [Event.add m c e]) m = some { pr with cfg := c } := by
                simp [drain, apply, hpr, hv, upd]
              simp only [hv, ↓reduceIte]; exact ⟨_, hd, rfl, hhosts⟩
            · have hd : drain p ([Event.config m c] ++ [Event.add m c e]) m = some pr := by
                simp [drain, apply, hpr, hv]
              simp only [hv, Bool.false_eq_true, ↓reduceIte]
              right; exact ⟨pr, hd, by rw [hcfg]; exact hov, hhosts⟩
          · simp only [hov, Bool.false_eq_true, ↓reduceIte] at hp ⊢
            rcases hp with hp | ⟨pr, hpr, hval, hhosts⟩
            · by_cases hv : c.valid
              · have hd : drain p ([Event.config m c] ++ [Event.add m c e]) m = some { cfg := c, hosts := e.eraseDups } := by
                  simp [drain, apply, hp, hv, upd]
                simp only [hv, ↓reduceIte]; exact ⟨_, hd, rfl, fun x => eraseDups_mem e x⟩
              · have hd : drain p ([Event.config m c] ++ [Event.add m c e]) m = none := by
                  simp [drain, apply, hp, hv]
                simp only [hv, Bool.false_eq_true, ↓reduceIte]; left; exact hd
            · by_cases hv : c.valid
              · have hd : drain p ([Event.config m c] ++ [Event.add m c e]) m = some { pr with cfg := c } := by
                  simp [drain, apply, hpr, hv, upd]
                simp only [hv, ↓reduceIte]; exact ⟨_, hd, rfl, hhosts⟩
              · have hd : drain p ([Event.config m c] ++ [Event.add m c e]) m = some pr := by
                  simp [drain, apply, hpr, hv]
                simp only [hv, Bool.false_eq_true, ↓reduceIte]
                right; exact ⟨pr, hd, hval, hhosts⟩
      · have hsm : upd s n (some { cfg := some c, eps := some e }) m = s m := by simp [upd, hm]
        simp only []
        rw [hsm]
        have key : ∀ (evs : List Event), (∀ ev ∈ evs, ev = .config n c ∨ ev = .add n c e) → drain p evs m = p m := by
          intro evs hev
          exact other evs p (fun _ _ => rfl) (fun ev h' => evN ev (hev ev h')) m hm
        cases cfg0 with
        | none =>
          simp only [List.nil_append]
          rw [key _ (by intro ev h'; simp at h'; exact Or.inr h')]; exact h m
        | some old =>
          rw [key _ (by intro ev h'; simp at h'; exact h')]; exact h m


theorem apply_endpoints_hosts (pr : Proc) (e va vr : List Nat) (e1 e2 added removed : List Nat)
    (hh : SameSet pr.hosts e)
    (h1 : ∀ x, x ∈ e1 ↔ (x ∈ e ∧ x ∉ removed)) (h2 : ∀ x, x ∈ vr ↔ (x ∈ e ∧ x ∈ removed))
    (h3 : ∀ x, x ∈ e2 ↔ (x ∈ e1 ∨ x ∈ added)) (h4 : ∀ x, x ∈ va ↔ (x ∉ e1 ∧ x ∈ added)) :
    SameSet (pr.hosts.filter (fun a => !vr.contains a) ++
      (va.eraseDups.filter (fun a => !(pr.hosts.filter (fun a => !vr.contains a)).contains a))) e2 := by
  intro x
  have hx1 : x ∈ pr.hosts.filter (fun a => !vr.contains a) ↔ x ∈ e1 := by
    simp only [List.mem_filter, Bool.not_eq_true', List.contains_eq_mem, decide_eq_false_iff_not]
    rw [hh x, h2 x, h1 x]
    constructor
    · intro ⟨a, b⟩; exact ⟨a, fun c => b ⟨a, c⟩⟩
    · intro ⟨a, b⟩; exact ⟨a, fun c => b c.2⟩
  simp only [List.mem_append, List.mem_filter, Bool.not_eq_true', List.contains_eq_mem, decide_eq_false_iff_not,
    eraseDups_mem] at hx1 ⊢
  rw [h3 x, h4 x]
  constructor
  · intro h
    rcases h with h | ⟨⟨_, b⟩, _⟩
    · exact Or.inl (hx1.mp h)
    · exact Or.inr b
  · intro h
    by_cases hin : x ∈ e1
    · exact Or.inl (hx1.mpr hin)
    · rcases h with h | h
      · exact absurd h hin
      · exact Or.inr ⟨⟨hin, h⟩, fun c => hin (hx1.mp c)⟩

theorem drain_other (n : Nat) (p : Procs) (evs : List Event)
    (hev : ∀ ev ∈ evs, (∃ c e, ev = .add n c e) ∨ (∃ va vr, ev = .endpoints n va vr)) :
    ∀ m, m ≠ n → drain p evs m = p m := by
  suffices H : ∀ (evs : List Event) (q : Procs), (∀ m, m ≠ n → q m = p m) →
      (∀ ev ∈ evs, (∃ c e, ev = .add n c e) ∨ (∃ va vr, ev = .endpoints n va vr)) →
      ∀ m, m ≠ n → drain q evs m = p m from H evs p (fun _ _ => rfl) hev
  intro evs
  induction evs with
  | nil => intro q hq _ m hm; exact hq m hm
  | cons ev rest ih =>
    intro q hq hev m hm
    simp only [drain, List.foldl_cons]
    apply ih (apply q ev) _ (fun ev' h' => hev ev' (by simp [h'])) m hm
    intro m' hm'
    rw [← hq m' hm']
    rcases hev ev (by simp) with ⟨c, e, rfl⟩ | ⟨va, vr, rfl⟩
    · simp only [apply]; cases q n with
      | none => split <;> simp [upd, hm']
      | some pr => rfl
    · simp only [apply]; cases q n with
      | none => rfl
      | some pr => simp [upd, hm']

theorem epsEvents_shape (n : Nat) (cfg : Option Cfg) (old new : Option (List Nat)) (va vr : List Nat) :
    ∀ ev ∈ epsEvents n cfg old new va vr, (∃ c e, ev = .add n c e) ∨ (∃ va vr, ev = .endpoints n va vr) := by
  intro ev hev
  unfold epsEvents at hev
  cases cfg with
  | none => simp at hev
  | some c =>
    cases new with
    | none => simp at hev
    | some e =>
      cases old with
      | none => simp at hev; exact Or.inl ⟨c, e, hev⟩
      | some o =>
        simp only at hev
        split at hev
        · simp at hev
        · simp at hev; exact Or.inr ⟨va, vr, hev⟩

theorem inv_epsUpdate (s : Store) (p : Procs) (n : Nat) (added removed : List Nat) (h : Inv s p) :
    Inv (epsUpdate s n added removed).1 (drain p (epsUpdate s n added removed).2) := by
  unfold epsUpdate
  by_cases hempty : (added.isEmpty && removed.isEmpty) = true
  · simpa [hempty, drain] using h
  · simp only [hempty, Bool.false_eq_true, ↓reduceIte]
    cases hs : s n with
    | none => simpa [hs, drain] using h
    | some sv =>
      have hg := h n
      rw [hs] at hg
      obtain ⟨cfg0, eps0⟩ := sv
      simp only []
      intro m
      by_cases hm : m = n
      · subst hm
        simp only [upd, ↓reduceIte]
        cases eps0 with
        | none =>
          have hp : p m = none := by cases cfg0 <;> simpa [Good] using hg
          have hrem := removeEps_mem removed [] List.nodup_nil
          simp only [Option.getD_none]
          have he1 : (removeEps [] removed).1 = [] := by
            cases he : (removeEps [] removed).1 with
            | nil => rfl
            | cons a as => have := (hrem.1 a).mp (by rw [he]; simp); simp at this
          rw [he1]
          have hadd := addEps_mem added [] List.nodup_nil
          by_cases hva : (addEps [] added).2.isEmpty = true
          · simp only [newEps, hva, ↓reduceIte, epsEvents]
            cases cfg0 <;> simp [Good, drain, hp]
          · simp only [newEps, hva, Bool.false_eq_true, ↓reduceIte, epsEvents]
            cases cfg0 with
            | none => simp only [drain, List.foldl_nil, Good]; exact ⟨hadd.2.2, hp⟩
            | some c =>
              simp only [drain, List.foldl_cons, List.foldl_nil, apply, hp, Good]
              refine ⟨hadd.2.2, ?_⟩
              by_cases hv : c.valid
              · simp only [hv, ↓reduceIte, upd]; exact ⟨_, rfl, rfl, fun x => eraseDups_mem _ x⟩
              · simp only [hv, Bool.false_eq_true, ↓reduceIte]; left; exact hp
        | some e =>
          have hnd : e.Nodup := by cases cfg0 <;> (simp only [Good] at hg; exact hg.1)
          have hrem := removeEps_mem removed e hnd
          simp only [Option.getD_some, newEps]
          generalize hre : removeEps e removed = re at hrem
          obtain ⟨e1, vr⟩ := re
          simp only [] at hrem ⊢
          have hadd := addEps_mem added e1 hrem.2.2
          generalize hae : addEps e1 added = ae at hadd
          obtain ⟨e2, va⟩ := ae
          simp only [] at hadd ⊢
          cases cfg0 with
          | none =>
            simp only [Good] at hg
            simp only [epsEvents, drain, List.foldl_nil, Good]; exact ⟨hadd.2.2, hg.2⟩
          | some c =>
            simp only [Good] at hg
            obtain ⟨_, hp⟩ := hg
            simp only [Good, epsEvents]
            refine ⟨hadd.2.2, ?_⟩
            by_cases hnoev : (va.isEmpty && vr.isEmpty) = true
            · simp only [hnoev, ↓reduceIte, drain, List.foldl_nil]
              have hvae : va = [] := by simp at hnoev; exact hnoev.1
              have hvre : vr = [] := by simp at hnoev; exact hnoev.2
              have hsame : SameSet e e2 := by
                intro x
                rw [hadd.1 x, hrem.1 x]
                constructor
                · intro hx
                  left; refine ⟨hx, fun hr => ?_⟩
                  have := (hrem.2.1 x).mpr ⟨hx, hr⟩
                  rw [hvre] at this; simp at this
                · intro hx
                  rcases hx with hx | hx
                  · exact hx.1
                  · by_cases hin : x ∈ e1
                    · exact ((hrem.1 x).mp hin).1
                    · have := (hadd.2.1 x).mpr ⟨hin, hx⟩
                      rw [hvae] at this; simp at this
              by_cases hv : c.valid
              · simp only [hv, ↓reduceIte] at hp ⊢
                obtain ⟨pr, hpr, hc, hh⟩ := hp
                exact ⟨pr, hpr, hc, fun x => (hh x).trans (hsame x)⟩
              · simp only [hv, Bool.false_eq_true, ↓reduceIte] at hp ⊢
                rcases hp with hp | ⟨pr, hpr, hc, hh⟩
                · left; exact hp
                · right; exact ⟨pr, hpr, hc, fun x => (hh x).trans (hsame x)⟩
            · simp only [hnoev, Bool.false_eq_true, ↓reduceIte, drain, List.foldl_cons, List.foldl_nil, apply]
              by_cases hv : c.valid
              · simp only [hv, ↓reduceIte] at hp ⊢
                obtain ⟨pr, hpr, hc, hh⟩ := hp
                simp only [hpr, upd, ↓reduceIte]
                exact ⟨_, rfl, hc, apply_endpoints_hosts pr e va vr e1 e2 added removed hh hrem.1 hrem.2.1 hadd.1 hadd.2.1⟩
              · simp only [hv, Bool.false_eq_true, ↓reduceIte] at hp ⊢
                rcases hp with hp | ⟨pr, hpr, hc, hh⟩
                · left; simp [hp]
                · right
                  simp only [hpr, upd, ↓reduceIte]
                  exact ⟨_, rfl, hc, apply_endpoints_hosts pr e va vr e1 e2 added removed hh hrem.1 hrem.2.1 hadd.1 hadd.2.1⟩
      · simp only [upd, hm, ↓reduceIte]
        rw [drain_other n p _ (epsEvents_shape n _ _ _ _ _) m hm]
        exact h m

end SamVerif.Proofs.Conf
