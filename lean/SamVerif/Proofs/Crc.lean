/-
C12 helper lemmas: the table-driven CRC step of the generated `Gen.Crc.crc16`
equals the bitwise shift-register step, for every 16-bit state and every byte.

The 2^16 × 2^8 state/byte pairs are covered algebraically: the 8-fold shift
step is linear over xor (`bitStep8_xor`), a state splits into its high and low
byte, the low byte just shifts (`low_byte`, 256 rows), the high byte (xor the
input byte) selects the table row (`tab_row`, 256 rows).
-/
import SamVerif.Gen.Crc
import SamVerif.Spec.Crc
namespace SamVerif.Proofs.Crc
open SamVerif SamVerif.Spec.Crc

theorem bitStep_xor (x y : BitVec 16) : bitStep (x ^^^ y) = bitStep x ^^^ bitStep y := by
  unfold bitStep
  rw [BitVec.msb_xor]
  cases hx : x.msb <;> cases hy : y.msb <;> simp [BitVec.shiftLeft_xor_distrib] <;> ext i <;> simp <;> grind

theorem bitStep8_xor (x y : BitVec 16) : bitStep8 (x ^^^ y) = bitStep8 x ^^^ bitStep8 y := by
  simp only [bitStep8, bitStep_xor]

/-- Every row of the table extracted from the source is the remainder of its
index byte (256 rows, checked by the kernel). -/
theorem tab_row : ∀ i : Fin 256,
    Gen.Crc.tab.getD i.val 0#16 = bitStep8 (BitVec.ofNat 16 i.val <<< 8) := by
  decide +kernel

theorem tab_size : Gen.Crc.tab.size = 256 := by decide +kernel

theorem low_byte : ∀ i : Fin 256,
    bitStep8 (BitVec.ofNat 16 i.val) = BitVec.ofNat 16 i.val <<< 8 := by
  decide +kernel

/-- bit-by-bit extensionality on 16-bit vectors, all indices concrete -/
macro "bits16" : tactic => `(tactic| (
  ext i hi
  have h16 : i = 0 ∨ i = 1 ∨ i = 2 ∨ i = 3 ∨ i = 4 ∨ i = 5 ∨ i = 6 ∨ i = 7 ∨ i = 8 ∨ i = 9 ∨
      i = 10 ∨ i = 11 ∨ i = 12 ∨ i = 13 ∨ i = 14 ∨ i = 15 := by omega
  rcases h16 with h|h|h|h|h|h|h|h|h|h|h|h|h|h|h|h <;> subst h <;> simp))

theorem split16 (x : BitVec 16) : x = ((x >>> 8) <<< 8) ^^^ (x &&& 0xff#16) := by bits16

theorem lowmask (c : BitVec 16) (b : BitVec 8) :
    (c ^^^ (b.setWidth 16 <<< 8)) &&& 0xff#16 = c &&& 0xff#16 := by bits16

theorem himask (c : BitVec 16) (b : BitVec 8) :
    (c ^^^ (b.setWidth 16 <<< 8)) >>> 8 = ((c >>> 8) &&& 255#16) ^^^ b.setWidth 16 := by bits16

theorem lowshift (c : BitVec 16) : (c &&& 0xff#16) <<< 8 = (c <<< 8) &&& 65280#16 := by bits16

theorem hi_lt (c : BitVec 16) : (c >>> 8).toNat < 256 := by
  have := c.isLt
  simp [BitVec.toNat_ushiftRight, Nat.shiftRight_eq_div_pow]; omega

theorem lo_lt (c : BitVec 16) : (c &&& 0xff#16).toNat < 256 := by
  simp [BitVec.toNat_and]
  exact Nat.lt_of_le_of_lt Nat.and_le_right (by decide)

theorem ofNat_toNat16 (x : BitVec 16) : BitVec.ofNat 16 x.toNat = x := by simp

/-- The table step of the generated code is the bitwise byte step. -/
theorem step_eq (c : BitVec 16) (b : BitVec 8) :
    (((c <<< 8) &&& 65280#16) ^^^
      (Gen.Crc.tab.getD (((c >>> 8) &&& 255#16) ^^^ (b.setWidth 16)).toNat 0#16)) = byteStep c b := by
  unfold byteStep
  generalize hx : c ^^^ (b.setWidth 16 <<< 8) = x
  have hs := split16 x
  have hlow : x &&& 0xff#16 = c &&& 0xff#16 := by rw [← hx]; exact lowmask c b
  have hhi : x >>> 8 = ((c >>> 8) &&& 255#16) ^^^ b.setWidth 16 := by rw [← hx]; exact himask c b
  rw [hs, bitStep8_xor, hlow, ← hhi]
  have h1 := tab_row ⟨(x >>> 8).toNat, hi_lt x⟩
  have h2 := low_byte ⟨(c &&& 0xff#16).toNat, lo_lt c⟩
  simp only [ofNat_toNat16] at h1 h2
  rw [h1, h2, lowshift, BitVec.xor_comm]

end SamVerif.Proofs.Crc
