/-
C12 helper lemmas: the two index loops of the generated `hashtag` compute the
`dropWhile`/`takeWhile` hash tag of the specification.
-/
import SamVerif.Gen.Crc
import SamVerif.Spec.Crc
namespace SamVerif.Proofs.Hashtag
open SamVerif

theorem byteAt_eq (b : List UInt8) (i : Nat) (c : UInt8) (h : i < b.length) :
    (Go.byteAt b i == c.toBitVec) = (b[i] == c) := by
  unfold Go.byteAt
  simp [List.getD_eq_getElem?_getD, List.getElem?_eq_getElem h]
  cases hbc : b[i] == c
  · simp at hbc; simp; intro h; exact hbc (UInt8.toBitVec_inj.mp h)
  · simp at hbc; simp [hbc]

/-- The scan loop from `a` stops at `a +` the length of the `takeWhile (· != c)`
prefix of what is left. -/
theorem scan_eq (b : List UInt8) (c : UInt8) :
    ∀ (k a : Nat), b.length - a = k → a ≤ b.length →
      Go.scanFrom (fun i => Go.byteAt b i == c.toBitVec) a b.length
        = a + ((b.drop a).takeWhile (· != c)).length := by
  intro k
  induction k with
  | zero =>
    intro a hk ha
    have : a = b.length := by omega
    subst this
    unfold Go.scanFrom; simp
  | succ k ih =>
    intro a hk ha
    have hlt : a < b.length := by omega
    unfold Go.scanFrom
    simp only [hlt, ↓reduceDIte]
    rw [byteAt_eq b a c hlt]
    rw [List.drop_eq_getElem_cons hlt]
    cases hbc : b[a] == c
    · simp only [Bool.false_eq_true, ↓reduceIte]
      rw [ih (a + 1) (by omega) (by omega)]
      have : (b[a] != c) = true := by simp [bne, hbc]
      simp only [List.takeWhile_cons, this, ↓reduceIte, List.length_cons]; omega
    · simp only [↓reduceIte]
      have : (b[a] != c) = false := by simp [bne, hbc]
      simp only [List.takeWhile_cons, this, Bool.false_eq_true, ↓reduceIte, List.length_nil, Nat.add_zero]

theorem takeWhile_length_add_dropWhile (p : UInt8 → Bool) (l : List UInt8) :
    (l.takeWhile p).length + (l.dropWhile p).length = l.length := by
  induction l with
  | nil => simp
  | cons x xs ih =>
    by_cases h : p x
    · simp [List.dropWhile_cons_of_pos h, List.takeWhile_cons_of_pos h]; omega
    · simp [List.dropWhile_cons_of_neg h, List.takeWhile_cons_of_neg h]

theorem dropWhile_eq_drop (p : UInt8 → Bool) (l : List UInt8) :
    l.dropWhile p = l.drop (l.takeWhile p).length := by
  induction l with
  | nil => simp
  | cons x xs ih =>
    by_cases h : p x
    · simp [List.dropWhile_cons_of_pos h, List.takeWhile_cons_of_pos h, ih]
    · simp [List.dropWhile_cons_of_neg h, List.takeWhile_cons_of_neg h]

theorem take_takeWhile_length (p : UInt8 → Bool) (l : List UInt8) :
    l.take (l.takeWhile p).length = l.takeWhile p := by
  induction l with
  | nil => simp
  | cons x xs ih =>
    by_cases h : p x
    · simp [List.takeWhile_cons_of_pos h, ih]
    · simp [List.takeWhile_cons_of_neg h]

theorem slice_drop_take (key : List UInt8) (a n : Nat) :
    Go.slice key a (a + n) = (key.drop a).take n := by
  unfold Go.slice
  rw [List.drop_take]
  congr 1
  omega

end SamVerif.Proofs.Hashtag
