/-
C10 helper lemmas: decimal integers round-trip through `itoa`/`parseInt64`; the
stream source reads back lines and bulk bodies produced by the encoder.
-/
import SamVerif.Model.Resp
namespace SamVerif.Proofs.Resp
open SamVerif.Resp

theorem digitChar_toNat (d : Nat) (h : d < 10) : (digitChar d).toNat = 48 + d := by
  unfold digitChar
  simp [UInt8.toNat_ofNat']
  omega

theorem isDigit_digitChar (d : Nat) (h : d < 10) : isDigit (digitChar d) = true := by
  unfold isDigit
  have := digitChar_toNat d h
  simp [UInt8.le_iff_toNat_le, this]
  omega

theorem natDigits_ne_nil (n : Nat) : natDigits n ≠ [] := by
  unfold natDigits; split <;> simp

theorem natDigits_all_digit (n : Nat) : (natDigits n).all isDigit = true := by
  induction n using Nat.strongRecOn with
  | _ n ih =>
    unfold natDigits
    split
    · simp [isDigit_digitChar _ ‹_›]
    · rw [List.all_append]
      simp [ih (n / 10) (by omega), isDigit_digitChar (n % 10) (by omega)]

theorem parseDigits_append (a : Bytes) (c : UInt8) :
    parseDigits (a ++ [c]) = parseDigits a * 10 + (c.toNat - 48) := by
  unfold parseDigits; simp [List.foldl_append]

theorem parseDigits_natDigits (n : Nat) : parseDigits (natDigits n) = n := by
  induction n using Nat.strongRecOn with
  | _ n ih =>
    unfold natDigits
    split
    · rename_i h
      simp [parseDigits, digitChar_toNat n h]
    · rw [parseDigits_append, ih (n / 10) (by omega), digitChar_toNat _ (by omega)]
      omega

theorem natDigits_head_digit (n : Nat) : ∃ c rest, natDigits n = c :: rest ∧ isDigit c = true := by
  have h1 := natDigits_ne_nil n
  have h2 := natDigits_all_digit n
  match h : natDigits n with
  | [] => exact absurd h h1
  | c :: rest => 
    rw [h] at h2
    simp at h2
    exact ⟨c, rest, rfl, h2.1⟩

theorem natDigits_length_le (k : Nat) : ∀ n, n < 10 ^ (k+1) → (natDigits n).length ≤ k + 1 := by
  induction k with
  | zero => intro n h; unfold natDigits; simp at h; simp [h]
  | succ k ih =>
    intro n h
    unfold natDigits
    split
    · simp
    · simp
      have : n / 10 < 10 ^ (k+1) := by
        rw [Nat.pow_succ] at h; omega
      have := ih (n/10) this
      omega
theorem isDigit_not_sign (c : UInt8) (h : isDigit c = true) : (c == tMinus) = false ∧ (c == tPlus) = false := by
  unfold isDigit at h
  simp [UInt8.le_iff_toNat_le] at h
  constructor <;> (simp [tMinus, tPlus]; intro hc; subst hc; simp at h)

theorem parseSigned_natDigits (n : Nat) (neg : Bool)
    (h : minInt64 ≤ (if neg then -(n:Int) else (n:Int)) ∧ (if neg then -(n:Int) else (n:Int)) ≤ maxInt64) :
    parseSigned neg (natDigits n) = some (if neg then -(n:Int) else (n:Int)) := by
  unfold parseSigned
  have hne : (natDigits n).isEmpty = false := by
    cases h : natDigits n with
    | nil => exact absurd h (natDigits_ne_nil _)
    | cons => rfl
  simp only [hne, natDigits_all_digit, parseDigits_natDigits, Bool.not_true, Bool.or_self, Bool.false_eq_true, ↓reduceIte]
  simp [h]

theorem parseInt64_itoa (i : Int) (h1 : minInt64 ≤ i) (h2 : i ≤ maxInt64) : parseInt64 (itoa i) = some i := by
  cases i with
  | ofNat n =>
    obtain ⟨c, rest, hd, hc⟩ := natDigits_head_digit n
    have hs := isDigit_not_sign c hc
    unfold itoa
    simp only [hd, parseInt64, hs.1, hs.2, Bool.false_eq_true, ↓reduceIte]
    rw [← hd]
    have := parseSigned_natDigits n false (by simpa using And.intro h1 h2)
    simpa using this
  | negSucc n =>
    unfold itoa
    simp only [parseInt64, beq_self_eq_true, ↓reduceIte]
    have e : (-(((n+1 : Nat)) : Int)) = Int.negSucc n := by omega
    have := parseSigned_natDigits (n+1) true (by simp only [↓reduceIte]; rw [e]; exact ⟨h1, h2⟩)
    simp only [↓reduceIte] at this
    rw [this, e]

theorem itoa_length_le (i : Int) (h1 : minInt64 ≤ i) (h2 : i ≤ maxInt64) : (itoa i).length ≤ 20 := by
  unfold minInt64 at h1; unfold maxInt64 at h2
  cases i with
  | ofNat n =>
    unfold itoa
    have : n < 10 ^ (18+1) := by simp at h2; omega
    have := natDigits_length_le 18 n this
    simp; omega
  | negSucc n =>
    unfold itoa
    have : n + 1 < 10 ^ (18+1) := by omega
    have := natDigits_length_le 18 (n+1) this
    simp; omega

theorem natDigits_no_LF (n : Nat) : ∀ c ∈ natDigits n, c ≠ LF := by
  intro c hc
  have := natDigits_all_digit n
  rw [List.all_eq_true] at this
  have := this c hc
  unfold isDigit at this
  simp [UInt8.le_iff_toNat_le] at this
  intro h; subst h; simp [LF] at this

theorem itoa_no_LF (i : Int) : ∀ c ∈ itoa i, c ≠ LF := by
  intro c hc
  cases i with
  | ofNat n => exact natDigits_no_LF n c hc
  | negSucc n =>
    unfold itoa at hc
    simp at hc
    rcases hc with h | h
    · subst h; simp [tMinus, LF]
    · exact natDigits_no_LF _ c h

/-! ### stream source lemmas -/

theorem splitLF_append (t rest : Bytes) (h : ∀ c ∈ t, c ≠ LF) :
    splitLF (t ++ LF :: rest) = some (t ++ [LF], rest) := by
  induction t with
  | nil => simp [splitLF]
  | cons x xs ih =>
    have hx : (x == LF) = false := by simpa using h x (by simp)
    have := ih (fun c hc => h c (by simp [hc]))
    simp [splitLF, hx, this]

theorem splitLF_line (t rest : Bytes) (h : ∀ c ∈ t, c ≠ LF) :
    splitLF (t ++ (crlf ++ rest)) = some (t ++ crlf, rest) := by
  have h' : ∀ c ∈ t ++ [CR], c ≠ LF := by
    intro c hc
    simp at hc
    rcases hc with hc | hc
    · exact h c hc
    · subst hc; simp [CR, LF]
  have := splitLF_append (t ++ [CR]) rest h'
  simpa [crlf] using this

theorem stripCRLF_line (t : Bytes) : stripCRLF (t ++ crlf) = some t := by
  unfold stripCRLF crlf
  have h1 : ¬ (t ++ [CR, LF]).length < 2 := by simp
  have h2 : (t ++ [CR, LF]).length - 2 = t.length := by simp
  simp only [h1, ↓reduceIte, h2]
  simp [List.getD_eq_getElem?_getD]

theorem decodeInt_stream (sz : Nat) (hsz : 32 ≤ sz) (i : Int) (h1 : minInt64 ≤ i) (h2 : i ≤ maxInt64)
    (rest : Bytes) :
    decodeInt streamSrc ⟨sz, itoa i ++ (crlf ++ rest)⟩ = some (i, ⟨sz, rest⟩) := by
  unfold decodeInt
  have hl := itoa_length_le i h1 h2
  have hs := splitLF_line (itoa i) rest (itoa_no_LF i)
  have hfit : (itoa i).length + crlf.length ≤ sz := by simp [crlf]; omega
  simp [streamSrc, hs, hfit, stripCRLF_line, parseInt64_itoa i h1 h2]

theorem decodeText_stream (sz : Nat) (t : Bytes) (h : ∀ c ∈ t, c ≠ LF) (hlen : t.length + 2 ≤ maxLineLen)
    (rest : Bytes) :
    decodeText streamSrc ⟨sz, t ++ (crlf ++ rest)⟩ = some (t, ⟨sz, rest⟩) := by
  unfold decodeText
  have hl : t.length + crlf.length ≤ maxLineLen := by simpa [crlf] using hlen
  simp [streamSrc, splitLF_line t rest h, stripCRLF_line, hl]

theorem readFull_stream (sz : Nat) (t rest : Bytes) :
    streamSrc.readFull (t.length + 2) ⟨sz, t ++ (crlf ++ rest)⟩ = some (t ++ crlf, ⟨sz, rest⟩) := by
  have hlen : t.length + 2 = (t ++ crlf).length := by simp [crlf]
  have e : t ++ (crlf ++ rest) = (t ++ crlf) ++ rest := by simp
  simp only [streamSrc]
  rw [e, hlen, List.take_left' rfl, List.drop_left' rfl]
  simp

@[simp] theorem peek_stream (sz : Nat) (c : UInt8) (r : Bytes) :
    streamSrc.peek ⟨sz, c :: r⟩ = some (c, ⟨sz, c :: r⟩) := rfl

@[simp] theorem readByte_stream (sz : Nat) (c : UInt8) (r : Bytes) :
    streamSrc.readByte ⟨sz, c :: r⟩ = some (c, ⟨sz, r⟩) := rfl

/-- tokens joined by single spaces -/
def joinSP : List Bytes → Bytes
  | [] => []
  | [t] => t
  | t :: t' :: ts => t ++ SP :: joinSP (t' :: ts)

theorem splitOnSP_ne_nil (b : Bytes) : splitOnSP b ≠ [] := by
  cases b with
  | nil => simp [splitOnSP]
  | cons c rest =>
    unfold splitOnSP
    cases h : splitOnSP rest with
    | nil => simp
    | cons t ts => simp; split <;> simp

theorem splitOnSP_noSP (t : Bytes) (h : ∀ c ∈ t, c ≠ SP) : splitOnSP t = [t] := by
  induction t with
  | nil => simp [splitOnSP]
  | cons x xs ih =>
    have hx : (x == SP) = false := by simpa using h x (by simp)
    have := ih (fun c hc => h c (by simp [hc]))
    simp [splitOnSP, this, hx]

theorem splitOnSP_append (t r : Bytes) (h : ∀ c ∈ t, c ≠ SP) :
    splitOnSP (t ++ SP :: r) = t :: splitOnSP r := by
  induction t with
  | nil =>
    simp only [List.nil_append, splitOnSP]
    cases hr : splitOnSP r with
    | nil => exact absurd hr (splitOnSP_ne_nil r)
    | cons a as => simp
  | cons x xs ih =>
    have hx : (x == SP) = false := by simpa using h x (by simp)
    have := ih (fun c hc => h c (by simp [hc]))
    simp [splitOnSP, this, hx]

theorem splitOnSP_joinSP (toks : List Bytes) (hne : toks ≠ []) (h : ∀ t ∈ toks, ∀ c ∈ t, c ≠ SP) :
    splitOnSP (joinSP toks) = toks := by
  induction toks with
  | nil => exact absurd rfl hne
  | cons t ts ih =>
    cases ts with
    | nil => simpa [joinSP] using splitOnSP_noSP t (h t (by simp))
    | cons t' ts' =>
      simp only [joinSP]
      rw [splitOnSP_append t _ (h t (by simp))]
      rw [ih (by simp) (fun u hu => h u (by simp [hu]))]

theorem splitSpaces_joinSP (toks : List Bytes) (hne : toks ≠ []) (h : ∀ t ∈ toks, ∀ c ∈ t, c ≠ SP)
    (hn : ∀ t ∈ toks, t ≠ []) : splitSpaces (joinSP toks) = toks := by
  unfold splitSpaces
  rw [splitOnSP_joinSP toks hne h]
  rw [List.filter_eq_self]
  intro t ht
  have := hn t ht
  cases t with
  | nil => exact absurd rfl this
  | cons => rfl

theorem joinSP_no_LF (toks : List Bytes) (h : ∀ t ∈ toks, ∀ c ∈ t, c ≠ LF) : ∀ c ∈ joinSP toks, c ≠ LF := by
  induction toks with
  | nil => simp [joinSP]
  | cons t ts ih =>
    cases ts with
    | nil => simpa [joinSP] using h t (by simp)
    | cons t' ts' =>
      intro c hc
      simp only [joinSP, List.mem_append, List.mem_cons] at hc
      rcases hc with hc | hc | hc
      · exact h t (by simp) c hc
      · subst hc; simp [SP, LF]
      · exact ih (fun u hu => h u (by simp [hu])) c hc


end SamVerif.Proofs.Resp
