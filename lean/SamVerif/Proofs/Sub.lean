import SamVerif.Model.Sub
/-! Helper lemmas for C16 (discovery subscriptions). -/
namespace SamVerif.Sub

/-- the latest change of service `k` in a list of changes -/
def lastOp : Ops → Nat → Option Bool
  | [], _ => none
  | (n, b) :: r, k =>
    match lastOp r k with
    | some x => some x
    | none => if n = k then some b else none

theorem applyOps_append (s : NSet) (a b : Ops) : applyOps s (a ++ b) = applyOps (applyOps s a) b := by
  induction a generalizing s with
  | nil => rfl
  | cons p a ih => obtain ⟨n, c⟩ := p; simp [applyOps, ih]

theorem applyOps_snoc (s : NSet) (p : Ops) (n : Nat) (b : Bool) :
    applyOps s (p ++ [(n, b)]) = upd (applyOps s p) n b := by
  rw [applyOps_append]; rfl

theorem applyOps_lastOp (ops : Ops) : ∀ (s : NSet) (k : Nat),
    applyOps s ops k = (match lastOp ops k with | some x => x | none => s k) := by
  induction ops with
  | nil => intro s k; rfl
  | cons p r ih =>
    intro s k
    obtain ⟨n, b⟩ := p
    simp only [applyOps, lastOp]
    rw [ih]
    cases h : lastOp r k with
    | some x => rfl
    | none =>
      simp only [upd]
      by_cases hk : k = n
      · subst hk; simp
      · have : ¬ n = k := fun h' => hk h'.symm
        simp [hk, this]

theorem lastOp_none_iff (r : Ops) (n : Nat) : lastOp r n = none ↔ r.any (fun p => p.1 == n) = false := by
  induction r with
  | nil => simp [lastOp]
  | cons p r ih =>
    obtain ⟨m, b⟩ := p
    simp only [lastOp, List.any_cons]
    cases h : lastOp r n with
    | some x =>
      have hne : r.any (fun p => p.1 == n) ≠ false := fun h' => by rw [← ih] at h'; rw [h'] at h; cases h
      have hr : r.any (fun p => p.1 == n) = true := by
        cases hh : r.any (fun p => p.1 == n) with
        | true => rfl
        | false => exact absurd hh hne
      simp [hr]
    | none =>
      have hr := ih.mp h
      by_cases hm : m = n
      · subst hm; simp
      · have : (m == n) = false := by simpa using hm
        simp [hm, this]
        simpa using hr

theorem mem_latestOnly (ops : Ops) : ∀ (k : Nat) (b : Bool), (k, b) ∈ latestOnly ops ↔ lastOp ops k = some b := by
  induction ops with
  | nil => intro k b; simp [latestOnly, lastOp]
  | cons p r ih =>
    intro k b
    obtain ⟨n, c⟩ := p
    simp only [latestOnly, lastOp]
    cases hany : r.any (fun p => p.1 == n) with
    | true =>
      have hn : lastOp r n ≠ none := fun h => by rw [lastOp_none_iff] at h; rw [h] at hany; cases hany
      simp only [if_true]
      rw [ih]
      cases hk : lastOp r k with
      | some x => rfl
      | none =>
        by_cases hnk : n = k
        · subst hnk; exact absurd hk hn
        · simp [hnk]
    | false =>
      have hn : lastOp r n = none := (lastOp_none_iff r n).mpr hany
      simp only [Bool.false_eq_true, if_false, List.mem_cons, Prod.mk.injEq]
      rw [ih]
      cases hk : lastOp r k with
      | some x =>
        have hne : k ≠ n := fun h => by subst h; rw [hn] at hk; cases hk
        simp [hne]
      | none =>
        by_cases hnk : n = k
        · subst hnk; simp; exact eq_comm
        · have : ¬ k = n := fun h => hnk h.symm
          simp [hnk, this]

theorem mem_subs (ops : Ops) (k : Nat) : k ∈ (mkMsg ops).subs ↔ lastOp ops k = some true := by
  simp only [mkMsg, List.mem_map, List.mem_filter]
  constructor
  · rintro ⟨⟨n, b⟩, ⟨hm, hb⟩, hk⟩
    simp at hb hk; subst hb; subst hk
    exact (mem_latestOnly ops n true).mp hm
  · intro h
    exact ⟨(k, true), ⟨(mem_latestOnly ops k true).mpr h, rfl⟩, rfl⟩

theorem mem_unsubs (ops : Ops) (k : Nat) : k ∈ (mkMsg ops).unsubs ↔ lastOp ops k = some false := by
  simp only [mkMsg, List.mem_map, List.mem_filter]
  constructor
  · rintro ⟨⟨n, b⟩, ⟨hm, hb⟩, hk⟩
    simp at hb hk; subst hb; subst hk
    exact (mem_latestOnly ops n false).mp hm
  · intro h
    exact ⟨(k, false), ⟨(mem_latestOnly ops k false).mpr h, by simp⟩, rfl⟩

/-- one request built by `takePending` has the effect of the changes it was built from, applied
in order — whichever way the server reads a request -/
theorem applyMsgSU_mkMsg (s : NSet) (ops : Ops) (k : Nat) : applyMsgSU s (mkMsg ops) k = applyOps s ops k := by
  rw [applyOps_lastOp]
  unfold applyMsgSU
  cases h : lastOp ops k with
  | none =>
    have h1 : ¬ k ∈ (mkMsg ops).unsubs := fun hm => by rw [mem_unsubs, h] at hm; cases hm
    have h2 : ¬ k ∈ (mkMsg ops).subs := fun hm => by rw [mem_subs, h] at hm; cases hm
    simp [h1, h2]
  | some b =>
    cases b with
    | false =>
      have h1 : k ∈ (mkMsg ops).unsubs := (mem_unsubs ops k).mpr h
      simp [h1]
    | true =>
      have h1 : ¬ k ∈ (mkMsg ops).unsubs := fun hm => by rw [mem_unsubs, h] at hm; cases hm
      have h2 : k ∈ (mkMsg ops).subs := (mem_subs ops k).mpr h
      simp [h1, h2]

theorem applyMsgUS_mkMsg (s : NSet) (ops : Ops) (k : Nat) : applyMsgUS s (mkMsg ops) k = applyOps s ops k := by
  rw [applyOps_lastOp]
  unfold applyMsgUS
  cases h : lastOp ops k with
  | none =>
    have h1 : ¬ k ∈ (mkMsg ops).unsubs := fun hm => by rw [mem_unsubs, h] at hm; cases hm
    have h2 : ¬ k ∈ (mkMsg ops).subs := fun hm => by rw [mem_subs, h] at hm; cases hm
    simp [h1, h2]
  | some b =>
    cases b with
    | false =>
      have h1 : k ∈ (mkMsg ops).unsubs := (mem_unsubs ops k).mpr h
      have h2 : ¬ k ∈ (mkMsg ops).subs := fun hm => by rw [mem_subs, h] at hm; cases hm
      simp [h1, h2]
    | true =>
      have h2 : k ∈ (mkMsg ops).subs := (mem_subs ops k).mpr h
      simp [h2]

/-- no service is named in both lists of a request -/
theorem mkMsg_disjoint (ops : Ops) (k : Nat) : ¬ (k ∈ (mkMsg ops).subs ∧ k ∈ (mkMsg ops).unsubs) := by
  rintro ⟨h1, h2⟩
  rw [mem_subs] at h1; rw [mem_unsubs] at h2
  rw [h1] at h2; cases h2

/-! ### the invariant -/

/-- what the server's set will be once everything in flight has been delivered -/
def target (s : St) : Option NSet :=
  match s.phase with
  | .down => none
  | .snap l => some (applyOps (memSet l) s.pending)
  | .idle => some (applyOps s.server s.pending)
  | .sending m => some (applyOps (applyMsgSU s.server m) s.pending)

structure Inv (s : St) : Prop where
  support : ∀ k, s.subscribed k = true → k ∈ s.names
  tracks : ∀ t, target s = some t → ∀ k, t k = s.subscribed k

theorem inv_init : Inv {} := ⟨(by intro k h; cases h), (by intro t h; cases h)⟩

theorem mem_addName (l : List Nat) (n k : Nat) : k ∈ addName l n ↔ k ∈ l ∨ k = n := by
  unfold addName
  by_cases h : n ∈ l
  · simp [h]; intro hk; subst hk; exact h
  · simp [h]

theorem target_change (s : St) (n : Nat) (b : Bool) (names : List Nat) (t : NSet)
    (h : target { s with subscribed := upd s.subscribed n b, pending := s.pending ++ [(n, b)], names := names } = some t) :
    ∃ t0, target s = some t0 ∧ t = upd t0 n b := by
  unfold target at h ⊢
  cases hp : s.phase with
  | down => simp [hp] at h
  | snap l => simp only [hp] at h ⊢; injection h with h; exact ⟨_, rfl, by rw [← h, applyOps_snoc]⟩
  | idle => simp only [hp] at h ⊢; injection h with h; exact ⟨_, rfl, by rw [← h, applyOps_snoc]⟩
  | sending m => simp only [hp] at h ⊢; injection h with h; exact ⟨_, rfl, by rw [← h, applyOps_snoc]⟩

theorem inv_step (s s' : St) (l : Label) (hi : Inv s) (hs : step s l = some s') : Inv s' := by
  cases l with
  | sub n =>
    simp only [step] at hs
    by_cases hsub : s.subscribed n = true
    · simp [hsub] at hs; subst hs; exact hi
    · simp [hsub] at hs; subst hs
      constructor
      · intro k hk
        simp only [upd] at hk
        rw [mem_addName]
        by_cases hkn : k = n
        · exact Or.inr hkn
        · simp [hkn] at hk; exact Or.inl (hi.support k hk)
      · intro t ht k
        obtain ⟨t0, h0, rfl⟩ := target_change s n true _ t ht
        simp only [upd]
        by_cases hkn : k = n
        · simp [hkn]
        · simp [hkn]; exact hi.tracks t0 h0 k
  | unsub n =>
    simp only [step] at hs
    by_cases hsub : s.subscribed n = true
    · simp [hsub] at hs; subst hs
      constructor
      · intro k hk
        simp only [upd] at hk
        by_cases hkn : k = n
        · simp [hkn] at hk
        · simp [hkn] at hk; exact hi.support k hk
      · intro t ht k
        obtain ⟨t0, h0, rfl⟩ := target_change s n false s.names t ht
        simp only [upd]
        by_cases hkn : k = n
        · simp [hkn]
        · simp [hkn]; exact hi.tracks t0 h0 k
    · simp [hsub] at hs; subst hs; exact hi
  | connectFail =>
    simp only [step] at hs
    by_cases hp : s.phase = .down
    · simp [hp] at hs; subst hs; exact hi
    · simp [hp] at hs
  | connect =>
    simp only [step] at hs
    by_cases hp : s.phase = .down
    · simp [hp] at hs; subst hs
      refine ⟨hi.support, ?_⟩
      intro t ht k
      simp only [target] at ht
      injection ht with ht
      subst ht
      simp only [applyOps, memSet, List.mem_filter]
      cases hk : s.subscribed k with
      | false => simp
      | true => simp [hi.support k hk]
    · simp [hp] at hs
  | resubSent =>
    simp only [step] at hs
    cases hp : s.phase with
    | snap l =>
      simp [hp] at hs; subst hs
      refine ⟨hi.support, ?_⟩
      intro t ht k
      apply hi.tracks t _ k
      simpa [target, hp] using ht
    | down => simp [hp] at hs
    | idle => simp [hp] at hs
    | sending m => simp [hp] at hs
  | resubFail =>
    simp only [step] at hs
    cases hp : s.phase with
    | snap l => simp [hp] at hs; subst hs; exact ⟨hi.support, by intro t ht; simp [target] at ht⟩
    | down => simp [hp] at hs
    | idle => simp [hp] at hs
    | sending m => simp [hp] at hs
  | take =>
    simp only [step] at hs
    by_cases hp : s.phase = .idle ∧ s.pending ≠ []
    · simp [hp] at hs; subst hs
      refine ⟨hi.support, ?_⟩
      intro t ht k
      simp only [target, applyOps] at ht
      injection ht with ht
      subst ht
      rw [applyMsgSU_mkMsg]
      exact hi.tracks _ (by simp [target, hp.1]) k
    · simp [hp] at hs
  | sent =>
    simp only [step] at hs
    cases hp : s.phase with
    | sending m =>
      simp [hp] at hs; subst hs
      refine ⟨hi.support, ?_⟩
      intro t ht k
      apply hi.tracks t _ k
      simpa [target, hp] using ht
    | down => simp [hp] at hs
    | idle => simp [hp] at hs
    | snap l => simp [hp] at hs
  | sendFail =>
    simp only [step] at hs
    cases hp : s.phase with
    | sending m => simp [hp] at hs; subst hs; exact ⟨hi.support, by intro t ht; simp [target] at ht⟩
    | down => simp [hp] at hs
    | idle => simp [hp] at hs
    | snap l => simp [hp] at hs
  | recvFail =>
    simp only [step] at hs
    cases hp : s.phase with
    | sending m => simp [hp] at hs; subst hs; exact ⟨hi.support, by intro t ht; simp [target] at ht⟩
    | idle => simp [hp] at hs; subst hs; exact ⟨hi.support, by intro t ht; simp [target] at ht⟩
    | down => simp [hp] at hs
    | snap l => simp [hp] at hs

theorem inv_run (ls : List Label) : ∀ (s s' : St), Inv s → run s ls = some s' → Inv s' := by
  induction ls with
  | nil => intro s s' hi h; simp [run] at h; subst h; exact hi
  | cons l ls ih =>
    intro s s' hi h
    simp only [run] at h
    cases hs : step s l with
    | none => simp [hs] at h
    | some s1 => simp only [hs] at h; exact ih s1 s' (inv_step s s1 l hi hs) h

end SamVerif.Sub
