import SamVerif.Model.Stats
/-! Helper lemmas for C20 (statistics conservation). -/
namespace SamVerif.Stats

/-! ### keyed lists -/

theorem wsum_takeKey {α} (f : α → Nat) (id : Nat) :
    ∀ (l : List (Nat × α)) (a : α) (l' : List (Nat × α)),
      takeKey id l = some (a, l') → wsum f l = f a + wsum f l'
  | [], _, _, h => by simp [takeKey] at h
  | p :: l, a, l', h => by
    unfold takeKey at h
    by_cases hp : p.1 = id
    · simp [hp] at h
      obtain ⟨h1, h2⟩ := h
      subst h1; subst h2; simp [wsum]
    · simp [hp] at h
      cases ht : takeKey id l with
      | none => simp [ht] at h
      | some r =>
        obtain ⟨a2, l2⟩ := r
        simp [ht] at h
        obtain ⟨h1, h2⟩ := h
        subst h1; subst h2
        have := wsum_takeKey f id l a2 l2 ht
        simp [wsum, this]; omega

theorem wsum_bump (id : Nat) : ∀ l : List (Nat × Nat), wsum (fun h => h) (bump id l) = wsum (fun h => h) l + 1
  | [] => by simp [bump, wsum]
  | p :: l => by
    unfold bump
    by_cases hp : p.1 = id
    · simp [hp, wsum]; omega
    · simp [hp, wsum, wsum_bump id l]; omega

theorem wsum_one_eq_length {α} : ∀ l : List (Nat × α), wsum (fun _ => 1) l = l.length
  | [] => rfl
  | _ :: l => by simp [wsum, wsum_one_eq_length l]; omega

/-! ### connections -/

structure CInv (s : CState) : Prop where
  dsTotal : s.ds.total = s.ds.destroyed + regSize s
  dsActive : s.ds.active = (regSize s : Int)
  usTotal : s.us.total = s.us.destroyed + s.ups.length
  usActive : s.us.active = (s.ups.length : Int)

theorem cinv_init (limit : Nat) : CInv (cinit limit) := by
  constructor <;> simp [cinit, regSize]

theorem length_erase_mem (l : List Nat) (a : Nat) (h : a ∈ l) : (l.erase a).length + 1 = l.length := by
  have := List.length_erase_of_mem h
  have hp : 0 < l.length := List.length_pos_of_mem h
  omega

theorem cinv_removeConn (s : CState) (id : Nat) (h : CInv s) : CInv (removeConn s id) := by
  unfold removeConn
  cases hr : s.reg with
  | none => simpa [hr] using h
  | some r =>
    by_cases hm : id ∈ r
    · have hl := length_erase_mem r id hm
      have h1 := h.dsTotal; have h2 := h.dsActive
      simp only [regSize, hr, Option.getD_some] at h1 h2
      simp only [hm, if_true]
      constructor
      · simp only [regSize, Cx.close, Option.getD_some]; omega
      · simp only [regSize, Cx.close, Option.getD_some]; omega
      · exact h.usTotal
      · exact h.usActive
    · simpa [hr, hm] using h

theorem cinv_step (s : CState) (e : CEv) (h : CInv s) : CInv (cstep s e) := by
  cases e with
  | drain => exact h
  | stop =>
    unfold cstep
    cases hr : s.reg with
    | none => simpa [hr] using h
    | some r =>
      have h1 := h.dsTotal; have h2 := h.dsActive
      simp only [regSize, hr, Option.getD_some] at h1 h2
      constructor
      · simp only [regSize, Cx.close, Option.getD_none, List.length_nil]; omega
      · simp only [regSize, Cx.close, Option.getD_none, List.length_nil]; omega
      · exact h.usTotal
      · exact h.usActive
  | finish id =>
    unfold cstep
    apply cinv_removeConn
    by_cases hm : id ∈ s.ups
    · have hl := length_erase_mem s.ups id hm
      have h3 := h.usTotal; have h4 := h.usActive
      simp only [hm, if_true]
      constructor
      · exact h.dsTotal
      · exact h.dsActive
      · simp only [Cx.close]; omega
      · simp only [Cx.close]; omega
    · simpa [hm] using h
  | accept id hostOk dialOk =>
    unfold cstep
    cases hr : s.reg with
    | none => simpa [hr] using h
    | some r =>
      simp only []
      by_cases hl : limitHit s.limit r.length = true
      · simp only [hl, if_true]
        constructor
        · simpa [regSize, hr] using h.dsTotal
        · simpa [regSize, hr] using h.dsActive
        · exact h.usTotal
        · exact h.usActive
      · have h1 := h.dsTotal; have h2 := h.dsActive
        simp only [regSize, hr, Option.getD_some] at h1 h2
        have hs1 : CInv { s with reg := some (id :: r), ds := s.ds.open } := by
          constructor
          · simp only [regSize, Cx.open, Option.getD_some, List.length_cons]; omega
          · simp only [regSize, Cx.open, Option.getD_some, List.length_cons]; omega
          · exact h.usTotal
          · exact h.usActive
        simp only [hl, Bool.false_eq_true, if_false]
        cases hostOk with
        | false =>
          simp only [Bool.not_false, if_true]
          exact cinv_removeConn _ _ hs1
        | true =>
          cases dialOk with
          | false =>
            simp only [Bool.not_true, Bool.not_false, Bool.false_eq_true, if_false, if_true]
            apply cinv_removeConn
            constructor
            · exact hs1.dsTotal
            · exact hs1.dsActive
            · exact hs1.usTotal
            · exact hs1.usActive
          | true =>
            have h3 := h.usTotal; have h4 := h.usActive
            constructor
            · exact hs1.dsTotal
            · exact hs1.dsActive
            · simp only [Cx.open, List.length_cons, Bool.not_true, Bool.false_eq_true, if_false]; omega
            · simp only [Cx.open, List.length_cons, Bool.not_true, Bool.false_eq_true, if_false]; omega

theorem cinv_run (evs : List CEv) : ∀ s, CInv s → CInv (crun s evs) := by
  induction evs with
  | nil => intro s h; exact h
  | cons e es ih => intro s h; exact ih _ (cinv_step s e h)

/-- the registry never holds more than the limit (when a limit is set) -/
theorem limit_step (s : CState) (e : CEv) (hl : 0 < s.limit) (h : regSize s ≤ s.limit) :
    (cstep s e).limit = s.limit ∧ regSize (cstep s e) ≤ s.limit := by
  have rem : ∀ (t : CState) (id : Nat), t.limit = s.limit → regSize t ≤ s.limit →
      (removeConn t id).limit = s.limit ∧ regSize (removeConn t id) ≤ s.limit := by
    intro t id ht hle
    unfold removeConn
    cases hr : t.reg with
    | none => exact ⟨ht, hle⟩
    | some r =>
      by_cases hm : id ∈ r
      · have := length_erase_mem r id hm
        simp only [regSize, hr, Option.getD_some] at hle
        simp only [hm, if_true, regSize, Option.getD_some]
        exact ⟨ht, by omega⟩
      · simp only [hm, if_false]; exact ⟨ht, hle⟩
  cases e with
  | drain => exact ⟨rfl, h⟩
  | stop =>
    unfold cstep
    cases hr : s.reg with
    | none => exact ⟨rfl, h⟩
    | some r => simp [regSize]
  | finish id =>
    unfold cstep
    apply rem
    · split <;> rfl
    · split <;> exact h
  | accept id hostOk dialOk =>
    unfold cstep
    cases hr : s.reg with
    | none => simpa [hr] using h
    | some r =>
      simp only []
      by_cases hlim : limitHit s.limit r.length = true
      · simp only [hlim, if_true]
        exact ⟨by trivial, by simpa [regSize, hr] using h⟩
      · simp only [hlim, Bool.false_eq_true, if_false]
        have hlt : r.length < s.limit := by
          by_cases hx : r.length < s.limit
          · exact hx
          · exfalso; apply hlim
            have h0 : (s.limit == 0) = false := by simp; omega
            simp [limitHit, h0, hx]
        have hbig : regSize { s with reg := some (id :: r), ds := s.ds.open } ≤ s.limit := by
          simp only [regSize, Option.getD_some, List.length_cons]; omega
        cases hostOk with
        | false =>
          simp only [Bool.not_false, if_true]
          exact rem _ id rfl hbig
        | true =>
          cases dialOk with
          | false =>
            simp only [Bool.not_true, Bool.not_false, Bool.false_eq_true, if_false, if_true]
            exact rem _ id rfl hbig
          | true =>
            simp only [Bool.not_true, Bool.false_eq_true, if_false]
            exact ⟨by trivial, hbig⟩

/-! ### requests -/

structure RInv (s : RState) : Prop where
  ds : s.ds.total = s.ds.ok + s.ds.bad + s.raws.length
  us : s.us.total = s.us.ok + s.us.bad + wsum (fun h => h) s.sims
  cmd : ∀ c, (s.cmd c).total = (s.cmd c).ok + (s.cmd c).bad + wsum (cmdWeight c) s.raws

theorem rinv_init : RInv {} := by
  constructor <;> simp [wsum]

theorem settle_total (t : Tri) (e : Bool) (n : Nat) : (t.settle e n).total = t.total := by
  unfold Tri.settle; cases e <;> simp

theorem settle_sum (t : Tri) (e : Bool) (n : Nat) : (t.settle e n).ok + (t.settle e n).bad = t.ok + t.bad + n := by
  unfold Tri.settle; cases e <;> simp <;> omega

theorem rinv_step (s : RState) (e : REv) (h : RInv s) : RInv (rstep s e) := by
  cases e with
  | moved => exact ⟨h.ds, h.us, h.cmd⟩
  | simSend id =>
    refine ⟨h.ds, ?_, h.cmd⟩
    simp only [rstep, wsum_bump]
    have := h.us; omega
  | simDone id err =>
    simp only [rstep]
    cases ht : takeKey id s.sims with
    | none => simpa [ht] using h
    | some r =>
      obtain ⟨hk, sims'⟩ := r
      have hw := wsum_takeKey (fun h => h) id s.sims hk sims' ht
      refine ⟨h.ds, ?_, h.cmd⟩
      simp only [settle_total]
      have := settle_sum s.us err hk
      have := h.us
      omega
  | rawNew id cmd =>
    refine ⟨?_, h.us, ?_⟩
    · simp only [rstep, List.length_cons]; have := h.ds; omega
    · intro c
      have hc := h.cmd c
      cases cmd with
      | none => simp only [rstep, wsum, cmdWeight]; simp; exact hc
      | some k =>
        simp only [rstep, wsum, cmdWeight, updCmd]
        by_cases hk : c = k
        · subst hk; simp; omega
        · have : ¬ (some k = some c) := by intro h'; injection h' with h'; exact hk h'.symm
          simp [hk, this]; exact hc
  | rawDone id err =>
    simp only [rstep]
    cases ht : takeKey id s.raws with
    | none => simpa [ht] using h
    | some r =>
      obtain ⟨cmd, raws'⟩ := r
      have hl := wsum_takeKey (fun _ => 1) id s.raws cmd raws' ht
      rw [wsum_one_eq_length, wsum_one_eq_length] at hl
      refine ⟨?_, h.us, ?_⟩
      · simp only [settle_total]
        have := settle_sum s.ds err 1
        have := h.ds
        omega
      · intro c
        have hc := h.cmd c
        have hw := wsum_takeKey (cmdWeight c) id s.raws cmd raws' ht
        cases cmd with
        | none =>
          simp only [cmdWeight] at hw
          simp at hw
          simp only []; omega
        | some k =>
          simp only [updCmd]
          by_cases hk : c = k
          · subst hk
            simp only [cmdWeight, if_true] at hw
            simp only [if_true, settle_total]
            have := settle_sum (s.cmd c) err 1
            omega
          · have : ¬ (some k = some c) := by intro h'; injection h' with h'; exact hk h'.symm
            simp only [cmdWeight, this, if_false] at hw
            simp only [hk, if_false]; omega

theorem rinv_run (evs : List REv) : ∀ s, RInv s → RInv (rrun s evs) := by
  induction evs with
  | nil => intro s h; exact h
  | cons e es ih => intro s h; exact ih _ (rinv_step s e h)

end SamVerif.Stats
