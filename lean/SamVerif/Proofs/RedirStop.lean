import SamVerif.Model.RedirStop
namespace SamVerif.RedirStop

def Inv (s : S) : Prop :=
  ((s.pc = .waitFirst ∨ s.pc = .closeSecond ∨ s.pc = .waitSecond ∨ s.pc = .returned) → (if s.aFirst then s.aQuit = true else s.bQuit = true)) ∧
  ((s.pc = .waitSecond ∨ s.pc = .returned) → s.aQuit = true ∧ s.bQuit = true)

theorem inv_step (s s' : S) (l : Label) (h : Inv s) (hs : step s l = some s') : Inv s' := by
  obtain ⟨h1, h2⟩ := h
  cases l <;> simp only [step] at hs <;> (repeat' split at hs) <;> (try cases hs) <;>
    (constructor <;> simp_all)

theorem step_decreases (s s' : S) (l : Label) (hs : step s l = some s') : mu s' < mu s := by
  cases l <;> simp only [step] at hs <;> (repeat' split at hs) <;> (try cases hs) <;>
    simp_all [mu, pcRank] <;> (try split) <;> omega

theorem abort_kept (s s' : S) (l : Label) (hs : step s l = some s') : s'.abort = s.abort ∧ s'.turnAbort = s.turnAbort := by
  cases l <;> simp only [step] at hs <;> (repeat' split at hs) <;> (try cases hs) <;> exact ⟨rfl, rfl⟩

theorem stopping_kept (s s' : S) (l : Label) (hp : s.pc ≠ .running) (hs : step s l = some s') : s'.pc ≠ .running := by
  cases l <;> simp only [step] at hs <;> (repeat' split at hs) <;> (try cases hs) <;> simp_all

/-- with `abort`, a Stop that has begun and not returned can always take a step -/
theorem progress (s : S) (h : Inv s) (ha : s.abort = true) (hta : s.turnAbort = true) (hp : s.pc ≠ .running) (hr : s.pc ≠ .returned) :
    ∃ l, (step s l).isSome = true := by
  obtain ⟨h1, h2⟩ := h
  cases hpc : s.pc with
  | running => exact absurd hpc hp
  | returned => exact absurd hpc hr
  | closeFirst => exact ⟨.close, by simp [step, hpc]⟩
  | closeSecond => exact ⟨.close, by simp [step, hpc]⟩
  | waitFirst =>
    have hq := h1 (Or.inl hpc)
    cases haf : s.aFirst with
    | true =>
      simp only [haf, ↓reduceIte] at hq
      cases hrd : s.rd with
      | reading => exact ⟨.readerExits, by simp [step, hrd, hq]⟩
      | queuing => exact ⟨.queueGivesUp, by simp [step, hrd, hq, ha, hta]⟩
      | sending => exact ⟨.aborted, by simp [step, hrd, hq, ha]⟩
      | exited => exact ⟨.waited, by simp [step, hpc, haf, hrd]⟩
    | false =>
      simp only [haf, Bool.false_eq_true, ↓reduceIte] at hq
      cases hb : s.bLoops with
      | true => exact ⟨.bExits, by simp [step, hb, hq]⟩
      | false => exact ⟨.waited, by simp [step, hpc, haf, hb]⟩
  | waitSecond =>
    obtain ⟨hqa, hqb⟩ := h2 (Or.inl hpc)
    cases haf : s.aFirst with
    | true =>
      cases hb : s.bLoops with
      | true => exact ⟨.bExits, by simp [step, hb, hqb]⟩
      | false => exact ⟨.waited, by simp [step, hpc, haf, hb]⟩
    | false =>
      cases hrd : s.rd with
      | reading => exact ⟨.readerExits, by simp [step, hrd, hqa]⟩
      | queuing => exact ⟨.queueGivesUp, by simp [step, hrd, hqa, ha, hta]⟩
      | sending => exact ⟨.aborted, by simp [step, hrd, hqa, ha]⟩
      | exited => exact ⟨.waited, by simp [step, hpc, haf, hrd]⟩

theorem run_facts (s s' : S) (ls : List Label) (h : Inv s) (hr : run s ls = some s') :
    Inv s' ∧ (s'.abort = s.abort ∧ s'.turnAbort = s.turnAbort) ∧ (s.pc ≠ .running → s'.pc ≠ .running) ∧ ls.length + mu s' ≤ mu s := by
  induction ls generalizing s with
  | nil => simp only [run] at hr; cases hr; exact ⟨h, ⟨rfl, rfl⟩, id, by simp⟩
  | cons l ls ih =>
    simp only [run] at hr
    split at hr
    · rename_i s1 hs
      obtain ⟨a, b, c, d⟩ := ih s1 (inv_step s s1 l h hs) hr
      refine ⟨a, ⟨by rw [b.1, (abort_kept s s1 l hs).1], by rw [b.2, (abort_kept s s1 l hs).2]⟩, fun hp => c (stopping_kept s s1 l hp hs), ?_⟩
      have := step_decreases s s1 l hs
      simp only [List.length_cons]; omega
    · cases hr

end SamVerif.RedirStop
