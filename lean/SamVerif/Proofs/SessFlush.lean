import SamVerif.Model.SessFlush
namespace SamVerif.SessFlush

def Inv (s : W) : Prop :=
  s.old = false ∧ (∀ id, s.pc = .waiting id → s.buf = []) ∧ (s.pc = .idle → s.queue = [] → s.buf = [])

theorem inv_step (s s' : W) (l : Label) (h : Inv s) (hs : step s l = some s') : Inv s' := by
  obtain ⟨ho, hw, hi⟩ := h
  cases l <;> simp only [step] at hs
  case enqueue id =>
    cases hs
    refine ⟨ho, hw, ?_⟩
    intro _ hq; simp at hq
  case complete id => cases hs; exact ⟨ho, hw, hi⟩
  case take =>
    split at hs
    · cases hs; refine ⟨ho, ?_, ?_⟩ <;> simp
    · cases hs
  case look =>
    split at hs
    · split at hs
      · cases hs; refine ⟨ho, ?_, ?_⟩ <;> simp
      · simp only [ho, Bool.false_eq_true, ↓reduceIte] at hs
        cases hs; refine ⟨rfl, ?_, ?_⟩ <;> simp
    · cases hs
  case done =>
    split at hs
    · split at hs
      · cases hs; refine ⟨ho, ?_, ?_⟩ <;> simp
      · cases hs
    · cases hs
  case encode =>
    split at hs
    · split at hs
      · cases hs; refine ⟨ho, ?_, ?_⟩ <;> simp
      · rename_i hq
        cases hs; refine ⟨ho, ?_, ?_⟩
        · simp
        · intro _ hq'; exact absurd hq' (by simpa using hq)
    · cases hs

theorem inv_run (s s' : W) (ls : List Label) (h : Inv s) (hr : run s ls = some s') : Inv s' := by
  induction ls generalizing s with
  | nil => simp only [run] at hr; cases hr; exact h
  | cons l ls ih =>
    simp only [run] at hr
    split at hr
    · rename_i s1 hs; exact ih s1 (inv_step s s1 l h hs) hr
    · cases hr

end SamVerif.SessFlush
