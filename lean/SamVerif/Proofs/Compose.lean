import SamVerif.Model.Compose
import SamVerif.Proofs.Session
/-! Helper lemmas for the composed system of C01. -/
namespace SamVerif.Compose
open SamVerif.Session

/-! ### projection: a connection's state is reachable by that connection alone -/

theorem srun_snoc (ls : List Label) : ∀ (a b c : Sess) (l : Label), Session.run a ls = some b → Session.step b l = some c →
    Session.run a (ls ++ [l]) = some c := by
  induction ls with
  | nil => intro a b c l h hs; simp [Session.run] at h; subst h; simp [Session.run, hs]
  | cons x xs ih =>
    intro a b c l h hs
    simp only [Session.run, List.cons_append] at h ⊢
    cases hx : Session.step a x with
    | none => simp [hx] at h
    | some a1 => simp only [hx] at h ⊢; exact ih a1 b c l h hs

/-- every connection's state is reachable by the session alone -/
def Reach (cap : Nat) (s : Sys) : Prop := ∀ c, ∃ ls, Session.run { cap := cap } ls = some (s.sess c)

theorem reach_init (cap : Nat) : Reach cap (init cap) := fun _ => ⟨[], rfl⟩

theorem reach_set (cap : Nat) (s : Sys) (c : Nat) (x : Sess) (l : Label) (h : Reach cap s)
    (hs : Session.step (s.sess c) l = some x) : Reach cap (setSess s c x) := by
  intro i
  by_cases hi : i = c
  · subst hi
    obtain ⟨ls, hls⟩ := h i
    exact ⟨ls ++ [l], by simp only [setSess, if_true]; exact srun_snoc ls _ _ _ l hls hs⟩
  · obtain ⟨ls, hls⟩ := h i
    exact ⟨ls, by simp only [setSess, if_neg hi]; exact hls⟩

theorem reach_step (cap : Nat) (s s' : Sys) (l : CLabel) (h : Reach cap s) (hs : step s l = some s') : Reach cap s' := by
  cases l with
  | sess c l =>
    simp only [step] at hs
    by_cases hc : isComplete l = true
    · simp [hc] at hs
    · rw [if_neg hc] at hs
      cases hx : Session.step (s.sess c) l with
      | none => simp [hx] at hs
      | some x => simp only [hx] at hs; injection hs with hs; subst hs; exact reach_set cap s c x l h hx
  | encode w r =>
    simp only [step] at hs
    split at hs
    · injection hs with hs; subst hs; exact h
    · cases hs
  | handoff w =>
    simp only [step] at hs
    split at hs
    · injection hs with hs; subst hs; exact h
    · cases hs
  | pair w final =>
    simp only [step] at hs
    split at hs
    · rename_i r rest hsent
      cases final with
      | false => simp only [Bool.false_eq_true, if_false] at hs; injection hs with hs; subst hs; exact h
      | true =>
        simp only [if_true] at hs
        cases hx : Session.step (s.sess r.1) (.complete r.2) with
        | none => simp [hx] at hs
        | some x =>
          simp only [hx] at hs; injection hs with hs; subst hs
          exact reach_set cap (setWire s w _) r.1 x _ h hx
    · cases hs
  | answer r =>
    simp only [step] at hs
    cases hx : Session.step (s.sess r.1) (.complete r.2) with
    | none => simp [hx] at hs
    | some x =>
      simp only [hx] at hs; injection hs with hs; subst hs
      exact reach_set cap s r.1 x _ h hx

theorem reach_run (cap : Nat) (ls : List CLabel) : ∀ (s s' : Sys), Reach cap s → run s ls = some s' → Reach cap s' := by
  induction ls with
  | nil => intro s s' hi h; simp [run] at h; subst h; exact hi
  | cons l ls ih =>
    intro s s' hi h
    simp only [run] at h
    cases hs : step s l with
    | none => simp [hs] at h
    | some s1 => simp only [hs] at h; exact ih s1 s' (reach_step cap s s1 l hi hs) h


/-! ### pairing in the composed system -/

structure PInv (s : Sys) : Prop where
  wire : ∀ w, (s.wires w).wire.drop (s.wires w).replies = (s.wires w).sent ++ (s.wires w).inHand.toList
  le : ∀ w, (s.wires w).replies ≤ (s.wires w).wire.length
  res : ∀ r w j, (r, (w, j)) ∈ s.results → (s.wires w).wire[j]? = some r
  done : ∀ c k, k ∈ (s.sess c).completed → (∃ w j, ((c, k), (w, j)) ∈ s.results) ∨ (c, k) ∈ s.locals

theorem pinv_init (cap : Nat) : PInv (init cap) :=
  ⟨fun _ => rfl, fun _ => Nat.le_refl _, fun _ _ _ h => by simp [init] at h, fun _ _ h => by simp [init] at h⟩

theorem getElem?_append_left' {α} (l : List α) (x : α) (j : Nat) (a : α) (h : l[j]? = some a) : (l ++ [x])[j]? = some a := by
  have hj : j < l.length := by
    rcases Nat.lt_or_ge j l.length with h1 | h1
    · exact h1
    · rw [List.getElem?_eq_none h1] at h; cases h
  rw [List.getElem?_append_left hj]; exact h

theorem completed_of_step (a b : Sess) (l : Label) (h : Session.step a l = some b) (hl : isComplete l = false) :
    b.completed = a.completed := by
  cases l <;> simp only [Session.step] at h <;> (repeat' split at h) <;> (try cases h) <;> (try rfl)
  all_goals simp [isComplete] at hl

theorem completed_of_complete (a b : Sess) (k : Nat) (h : Session.step a (.complete k) = some b) :
    b.completed = a.completed ++ [k] := by
  simp only [Session.step] at h
  split at h
  · injection h with h; subst h; rfl
  · cases h

theorem pinv_step (s s' : Sys) (l : CLabel) (hi : PInv s) (hs : step s l = some s') : PInv s' := by
  cases l with
  | sess c l =>
    simp only [step] at hs
    by_cases hc : isComplete l = true
    · simp [hc] at hs
    · rw [if_neg hc] at hs
      cases hx : Session.step (s.sess c) l with
      | none => simp [hx] at hs
      | some x =>
        simp only [hx] at hs; injection hs with hs; subst hs
        refine ⟨hi.wire, hi.le, hi.res, ?_⟩
        intro i k hk
        simp only [setSess] at hk ⊢
        by_cases hic : i = c
        · subst hic; simp only [if_true] at hk
          rw [completed_of_step _ _ _ hx (by simpa using hc)] at hk
          exact hi.done i k hk
        · simp only [if_neg hic] at hk; exact hi.done i k hk
  | encode w r =>
    simp only [step] at hs
    split at hs
    · rename_i hg
      injection hs with hs; subst hs
      refine ⟨?_, ?_, ?_, hi.done⟩
      rotate_left
      · intro v
        simp only [setWire]
        by_cases hv : v = w
        · subst hv; simp only [if_true, List.length_append, List.length_singleton]; exact Nat.le_succ_of_le (hi.le v)
        · simp only [if_neg hv]; exact hi.le v
      rotate_left
      · intro v
        simp only [setWire]
        by_cases hv : v = w
        · subst hv; simp only [if_true]
          have h1 := hi.wire v
          rw [hg.1] at h1
          simp only [Option.toList_none, List.append_nil] at h1
          have hle := hi.le v
          rw [List.drop_append_of_le_length hle, h1]; rfl
        · simp only [if_neg hv]; exact hi.wire v
      · intro q v j hq
        simp only [setWire]
        by_cases hv : v = w
        · subst hv; simp only [if_true]
          exact getElem?_append_left' _ _ _ _ (hi.res q v j hq)
        · simp only [if_neg hv]; exact hi.res q v j hq
    · cases hs
  | handoff w =>
    simp only [step] at hs
    cases hh : (s.wires w).inHand with
    | none => simp [hh] at hs
    | some r =>
      simp only [hh] at hs; injection hs with hs; subst hs
      refine ⟨?_, ?_, ?_, hi.done⟩
      rotate_left
      · intro v
        simp only [setWire]
        by_cases hv : v = w
        · subst hv; simp only [if_true]; exact hi.le v
        · simp only [if_neg hv]; exact hi.le v
      rotate_left
      · intro v
        simp only [setWire]
        by_cases hv : v = w
        · subst hv; simp only [if_true]
          have h1 := hi.wire v
          rw [hh] at h1
          simp only [Option.toList_none, List.append_nil]
          exact h1
        · simp only [if_neg hv]; exact hi.wire v
      · intro q v j hq
        simp only [setWire]
        by_cases hv : v = w
        · subst hv; simp only [if_true]; exact hi.res q v j hq
        · simp only [if_neg hv]; exact hi.res q v j hq
  | pair w final =>
    simp only [step] at hs
    cases hsent : (s.wires w).sent with
    | nil => simp [hsent] at hs
    | cons r rest =>
      simp only [hsent] at hs
      have h1 := hi.wire w
      rw [hsent] at h1
      have hget : (s.wires w).wire[(s.wires w).replies]? = some r := by
        have := congrArg (fun l => l[0]?) h1
        simpa using this
      have hdrop : (s.wires w).wire.drop ((s.wires w).replies + 1) = rest ++ (s.wires w).inHand.toList := by
        have := congrArg (List.drop 1) h1
        simpa [List.drop_drop, Nat.add_comm] using this
      have hw : ∀ v, ((setWire s w { s.wires w with sent := rest, replies := (s.wires w).replies + 1 }).wires v).wire.drop
            ((setWire s w { s.wires w with sent := rest, replies := (s.wires w).replies + 1 }).wires v).replies =
          ((setWire s w { s.wires w with sent := rest, replies := (s.wires w).replies + 1 }).wires v).sent ++
          ((setWire s w { s.wires w with sent := rest, replies := (s.wires w).replies + 1 }).wires v).inHand.toList := by
        intro v
        simp only [setWire]
        by_cases hv : v = w
        · subst hv; simp only [if_true]; exact hdrop
        · simp only [if_neg hv]; exact hi.wire v
      have hwire : ∀ v, ((setWire s w { s.wires w with sent := rest, replies := (s.wires w).replies + 1 }).wires v).wire = (s.wires v).wire := by
        intro v
        simp only [setWire]
        by_cases hv : v = w
        · subst hv; simp only [if_true]
        · simp only [if_neg hv]
      have hl : ∀ v, ((setWire s w { s.wires w with sent := rest, replies := (s.wires w).replies + 1 }).wires v).replies ≤ (s.wires v).wire.length := by
        intro v
        simp only [setWire]
        by_cases hv : v = w
        · subst hv; simp only [if_true]
          rcases Nat.lt_or_ge (s.wires v).replies (s.wires v).wire.length with h2 | h2
          · exact h2
          · rw [List.getElem?_eq_none h2] at hget; cases hget
        · simp only [if_neg hv]; exact hi.le v
      cases final with
      | false =>
        simp only [Bool.false_eq_true, if_false] at hs; injection hs with hs; subst hs
        exact ⟨hw, fun v => by rw [hwire]; exact hl v, fun q v j hq => by rw [hwire]; exact hi.res q v j hq, hi.done⟩
      | true =>
        simp only [if_true] at hs
        cases hx : Session.step (s.sess r.1) (.complete r.2) with
        | none => simp [hx] at hs
        | some x =>
          simp only [hx] at hs; injection hs with hs; subst hs
          refine ⟨hw, fun v => by show _ ≤ ((setWire s w _).wires v).wire.length; rw [hwire]; exact hl v, ?_, ?_⟩
          · intro q v j hq
            show ((setWire s w _).wires v).wire[j]? = some q
            rw [hwire]
            simp only [List.mem_cons] at hq
            rcases hq with hq | hq
            · injection hq with e1 e2; injection e2 with e2 e3; subst e1 e2 e3; exact hget
            · exact hi.res q v j hq
          · intro i k hk
            simp only [setSess] at hk
            by_cases hic : i = r.1
            · subst hic; simp only [if_true] at hk
              rw [completed_of_complete _ _ _ hx] at hk
              simp only [List.mem_append, List.mem_singleton] at hk
              rcases hk with hk | hk
              · rcases hi.done _ k hk with ⟨v, j, hv⟩ | hl
                · exact Or.inl ⟨v, j, List.mem_cons_of_mem _ hv⟩
                · exact Or.inr hl
              · subst hk; exact Or.inl ⟨w, (s.wires w).replies, List.mem_cons_self⟩
            · simp only [if_neg hic] at hk
              rcases hi.done i k hk with ⟨v, j, hv⟩ | hl
              · exact Or.inl ⟨v, j, List.mem_cons_of_mem _ hv⟩
              · exact Or.inr hl
  | answer r =>
    simp only [step] at hs
    cases hx : Session.step (s.sess r.1) (.complete r.2) with
    | none => simp [hx] at hs
    | some x =>
      simp only [hx] at hs; injection hs with hs; subst hs
      refine ⟨hi.wire, hi.le, hi.res, ?_⟩
      intro i k hk
      simp only [setSess] at hk
      by_cases hic : i = r.1
      · subst hic; simp only [if_true] at hk
        rw [completed_of_complete _ _ _ hx] at hk
        simp only [List.mem_append, List.mem_singleton] at hk
        rcases hk with hk | hk
        · rcases hi.done _ k hk with h | hl
          · exact Or.inl h
          · exact Or.inr (List.mem_cons_of_mem _ hl)
        · subst hk; exact Or.inr List.mem_cons_self
      · simp only [if_neg hic] at hk
        rcases hi.done i k hk with h | hl
        · exact Or.inl h
        · exact Or.inr (List.mem_cons_of_mem _ hl)


theorem pinv_run (ls : List CLabel) : ∀ (s s' : Sys), PInv s → run s ls = some s' → PInv s' := by
  induction ls with
  | nil => intro s s' hi h; simp [run] at h; subst h; exact hi
  | cons l ls ih =>
    intro s s' hi h
    simp only [run] at h
    cases hs : step s l with
    | none => simp [hs] at h
    | some s1 => simp only [hs] at h; exact ih s1 s' (pinv_step s s1 l hi hs) h

end SamVerif.Compose
