import SamVerif.Model.Client
/-! Helper lemmas for C02: invariants of the backend-connection transition system. -/
namespace SamVerif.Client

def ansIds (s : Cl) : List Nat := s.answered.map (·.1)

/-- how many times `id` is somewhere on this connection: in flight or completed -/
def cnt (s : Cl) (id : Nat) : Nat := (places s).count id + (ansIds s).count id

def lateStarter (p : SPc) : Prop := p = .lockDrain ∨ p = .drain ∨ p = .finished

structure Inv (s : Cl) : Prop where
  /-- every Send call is in exactly one place -/
  part : ∀ id, cnt s id = s.accepted.count id
  fresh : ∀ id, s.accepted.count id ≤ 1
  drainedNoLocked : s.drained = true → s.locked = []
  readerGone : s.starter ≠ .waitReader → s.reader = .exited ∧ s.quit = true
  writerGone : lateStarter s.starter → s.writer = .exited
  drainedIff : s.drained = true ↔ (s.starter = .drain ∨ s.starter = .finished)
  finishedEmpty : s.starter = .finished → s.pending = [] ∧ s.processing = []
  doneIff : s.done = true ↔ s.starter = .finished
  quitConn : s.quit = true → s.connOk = false

def init (cap : Nat) : Cl := { cap := cap }

theorem inv_init (cap : Nat) : Inv (init cap) := by
  constructor <;> simp [init, cnt, places, inWriter, ansIds, lateStarter]

/-! ### counting lemmas -/

theorem count_erase_add (l : List Nat) (a id : Nat) (h : a ∈ l) :
    (l.erase a).count id + (if id = a then 1 else 0) = l.count id := by
  rw [List.count_erase]
  by_cases hid : id = a
  · subst hid
    have : 0 < l.count id := List.count_pos_iff.mpr h
    simp; omega
  · have : ¬ a = id := fun h' => hid h'.symm
    simp [hid, this]

theorem count_snoc (l : List Nat) (a id : Nat) : (l ++ [a]).count id = l.count id + (if id = a then 1 else 0) := by
  rw [List.count_append]
  by_cases hid : id = a
  · subst hid; simp
  · have : ¬ a = id := fun h' => hid h'.symm
    simp [hid, this]

theorem count_cons' (l : List Nat) (a id : Nat) : (a :: l).count id = l.count id + (if id = a then 1 else 0) := by
  rw [List.count_cons]
  by_cases hid : id = a
  · subst hid; simp
  · have : ¬ a = id := fun h' => hid h'.symm
    simp [hid, this]

theorem ansIds_answer (s : Cl) (a : Nat) (h : How) (id : Nat) :
    (ansIds (answer s a h)).count id = (ansIds s).count id + (if id = a then 1 else 0) := by
  simp only [ansIds, answer, List.map_append, List.map_cons, List.map_nil]
  exact count_snoc _ a id

/-- the places as four counts -/
theorem places_count (s : Cl) (id : Nat) :
    (places s).count id = s.waiting.count id + s.locked.count id + s.pending.count id + (inWriter s).count id + s.processing.count id := by
  simp only [places, List.count_append]


@[simp] theorem answer_locked (s : Cl) (a : Nat) (h : How) : (answer s a h).locked = s.locked := rfl
@[simp] theorem answer_waiting (s : Cl) (a : Nat) (h : How) : (answer s a h).waiting = s.waiting := rfl
@[simp] theorem answer_pending (s : Cl) (a : Nat) (h : How) : (answer s a h).pending = s.pending := rfl
@[simp] theorem answer_processing (s : Cl) (a : Nat) (h : How) : (answer s a h).processing = s.processing := rfl
@[simp] theorem answer_accepted (s : Cl) (a : Nat) (h : How) : (answer s a h).accepted = s.accepted := rfl
@[simp] theorem answer_writer (s : Cl) (a : Nat) (h : How) : (answer s a h).writer = s.writer := rfl
@[simp] theorem inWriter_answer (s : Cl) (a : Nat) (h : How) : inWriter (answer s a h) = inWriter s := rfl

theorem cnt_def (s : Cl) (id : Nat) :
    cnt s id = s.waiting.count id + s.locked.count id + s.pending.count id + (inWriter s).count id + s.processing.count id + (ansIds s).count id := by
  simp only [cnt, places_count]

/-! ### one step -/

theorem lateStarter_cases {p : SPc} : lateStarter p ↔ (p = .lockDrain ∨ p = .drain ∨ p = .finished) := Iff.rfl

theorem inv_step (s s' : Cl) (l : Label) (hi : Inv s) (hs : step s l = some s') : Inv s' := by
  have hdr : s.drained = true → s.locked = [] := hi.drainedNoLocked
  cases l with
  | sendBegin a =>
    simp only [step] at hs
    by_cases ha : a ∈ s.accepted
    · simp [ha] at hs
    · rw [if_neg ha] at hs
      have hc0 : s.accepted.count a = 0 := List.count_eq_zero.mpr ha
      injection hs with hs; subst hs
      refine ⟨?_, ?_, hi.drainedNoLocked, hi.readerGone, hi.writerGone, hi.drainedIff, hi.finishedEmpty, hi.doneIff, hi.quitConn⟩
      · intro id
        have hp := hi.part id
        rw [cnt_def] at hp ⊢
        simp only [inWriter, ansIds] at hp ⊢
        rw [count_cons', count_cons']
        omega
      · intro id
        have := hi.fresh id
        rw [count_cons']
        by_cases hid : id = a
        · subst hid; simp; omega
        · simp [hid]; exact this
  | turnTake a =>
    simp only [step] at hs
    by_cases hc : a ∈ s.waiting ∧ s.locked = []
    · rw [if_pos hc] at hs
      by_cases hd : s.drained = true
      · rw [if_pos hd] at hs
        injection hs with hs; subst hs
        refine ⟨?_, hi.fresh, ?_, hi.readerGone, hi.writerGone, hi.drainedIff, hi.finishedEmpty, hi.doneIff, hi.quitConn⟩
        · intro id
          have hp := hi.part id
          rw [cnt_def] at hp ⊢
          rw [ansIds_answer]; simp only [ansIds] at hp ⊢
          have he := count_erase_add s.waiting a id hc.1
          simp only [answer, inWriter] at hp ⊢
          omega
        · intro _; exact hc.2
      · rw [if_neg hd] at hs
        injection hs with hs; subst hs
        refine ⟨?_, hi.fresh, ?_, hi.readerGone, hi.writerGone, hi.drainedIff, hi.finishedEmpty, hi.doneIff, hi.quitConn⟩
        · intro id
          have hp := hi.part id
          rw [cnt_def] at hp ⊢
          have he := count_erase_add s.waiting a id hc.1
          simp only [inWriter, ansIds, hc.2, List.count_nil] at hp ⊢
          rw [count_cons']
          simp only [List.count_nil]
          omega
        · intro h; exact absurd h hd
    · simp [hc] at hs
  | turnQuit a =>
    simp only [step] at hs
    by_cases hc : a ∈ s.waiting ∧ s.quit = true
    · rw [if_pos hc] at hs
      injection hs with hs; subst hs
      refine ⟨?_, hi.fresh, hi.drainedNoLocked, hi.readerGone, hi.writerGone, hi.drainedIff, hi.finishedEmpty, hi.doneIff, hi.quitConn⟩
      intro id
      have hp := hi.part id
      rw [cnt_def] at hp ⊢
      rw [ansIds_answer]; simp only [ansIds] at hp ⊢
      have he := count_erase_add s.waiting a id hc.1
      simp only [answer, inWriter] at hp ⊢
      omega
    · simp [hc] at hs
  | turnAbort a =>
    simp only [step] at hs
    by_cases hc : a ∈ s.waiting ∧ a ∈ s.abortable
    · rw [if_pos hc] at hs
      injection hs with hs; subst hs
      refine ⟨?_, hi.fresh, hi.drainedNoLocked, hi.readerGone, hi.writerGone, hi.drainedIff, hi.finishedEmpty, hi.doneIff, hi.quitConn⟩
      intro id
      have hp := hi.part id
      rw [cnt_def] at hp ⊢
      rw [ansIds_answer]; simp only [ansIds] at hp ⊢
      have he := count_erase_add s.waiting a id hc.1
      simp only [answer, inWriter] at hp ⊢
      omega
    · simp [hc] at hs
  | sendEnq a =>
    simp only [step] at hs
    by_cases hc : a ∈ s.locked ∧ s.pending.length < s.cap
    · rw [if_pos hc] at hs
      injection hs with hs; subst hs
      have hd : ¬ s.drained = true := fun h => by rw [hdr h] at hc; simp at hc
      refine ⟨?_, hi.fresh, ?_, hi.readerGone, hi.writerGone, hi.drainedIff, ?_, hi.doneIff, hi.quitConn⟩
      · intro id
        have hp := hi.part id
        rw [cnt_def] at hp ⊢
        have he := count_erase_add s.locked a id hc.1
        simp only [inWriter, ansIds] at hp ⊢
        rw [count_snoc]
        omega
      · intro h; exact absurd h hd
      · intro h
        have : s.drained = true := hi.drainedIff.mpr (Or.inr h)
        exact absurd this hd
    · simp [hc] at hs
  | sendQuit a =>
    simp only [step] at hs
    by_cases hc : a ∈ s.locked ∧ s.quit = true
    · rw [if_pos hc] at hs
      injection hs with hs; subst hs
      have hd : ¬ s.drained = true := fun h => by rw [hdr h] at hc; simp at hc
      refine ⟨?_, hi.fresh, ?_, hi.readerGone, hi.writerGone, hi.drainedIff, hi.finishedEmpty, hi.doneIff, hi.quitConn⟩
      · intro id
        have hp := hi.part id
        rw [cnt_def] at hp ⊢
        rw [ansIds_answer]; simp only [ansIds] at hp ⊢
        have he := count_erase_add s.locked a id hc.1
        simp only [answer, inWriter] at hp ⊢
        omega
      · intro h; exact absurd h hd
    · simp [hc] at hs
  | sendAbort a =>
    simp only [step] at hs
    by_cases hc : a ∈ s.locked ∧ a ∈ s.abortable
    · rw [if_pos hc] at hs
      injection hs with hs; subst hs
      have hd : ¬ s.drained = true := fun h => by rw [hdr h] at hc; simp at hc
      refine ⟨?_, hi.fresh, ?_, hi.readerGone, hi.writerGone, hi.drainedIff, hi.finishedEmpty, hi.doneIff, hi.quitConn⟩
      · intro id
        have hp := hi.part id
        rw [cnt_def] at hp ⊢
        rw [ansIds_answer]; simp only [ansIds] at hp ⊢
        have he := count_erase_add s.locked a id hc.1
        simp only [answer, inWriter] at hp ⊢
        omega
      · intro h; exact absurd h hd
    · simp [hc] at hs
  | wTake =>
    simp only [step] at hs
    cases hw : s.writer <;> simp only [hw] at hs <;> first | (cases hs; done) | skip
    cases hpq : s.pending with
    | nil => simp [hpq] at hs
    | cons a rest =>
      simp only [hpq] at hs
      injection hs with hs; subst hs
      refine ⟨?_, hi.fresh, hi.drainedNoLocked, hi.readerGone, ?_, hi.drainedIff, ?_, hi.doneIff, hi.quitConn⟩
      · intro id
        have hp := hi.part id
        rw [cnt_def] at hp ⊢
        simp only [inWriter, hw, hpq, ansIds] at hp ⊢
        rw [count_cons'] at hp
        simp only [List.count_cons, List.count_nil] at hp ⊢
        by_cases hid : a = id
        · subst hid; simp at hp ⊢; omega
        · have : ¬ id = a := fun h => hid h.symm
          simp [hid, this] at hp ⊢; omega
      · intro h; have := hi.writerGone h; rw [hw] at this; cases this
      · intro h; have := hi.finishedEmpty h; rw [hpq] at this; cases this.1
  | wQuitTop =>
    simp only [step] at hs
    by_cases hc : s.writer = .top ∧ s.quit = true
    · rw [if_pos hc] at hs
      injection hs with hs; subst hs
      refine ⟨?_, hi.fresh, hi.drainedNoLocked, ?_, fun _ => rfl, hi.drainedIff, hi.finishedEmpty, hi.doneIff, fun _ => rfl⟩
      · intro id
        have hp := hi.part id
        rw [cnt_def] at hp ⊢
        simp only [inWriter, hc.1, ansIds] at hp ⊢
        exact hp
      · intro h; exact ⟨(hi.readerGone h).1, rfl⟩
    · simp [hc] at hs
  | wFilterStop =>
    simp only [step] at hs
    cases hw : s.writer <;> simp only [hw] at hs <;> first | (cases hs; done) | skip
    rename_i a
    injection hs with hs; subst hs
    refine ⟨?_, hi.fresh, hi.drainedNoLocked, hi.readerGone, ?_, hi.drainedIff, hi.finishedEmpty, hi.doneIff, hi.quitConn⟩
    · intro id
      have hp := hi.part id
      rw [cnt_def] at hp ⊢
      rw [ansIds_answer]; simp only [ansIds] at hp ⊢
      simp only [answer, inWriter, hw] at hp ⊢
      simp only [List.count_cons, List.count_nil] at hp ⊢
      by_cases hid : a = id
      · subst hid; simp at hp ⊢; omega
      · have : ¬ id = a := fun h => hid h.symm
        simp [hid, this] at hp ⊢; omega
    · intro h; have := hi.writerGone h; rw [hw] at this; cases this
  | wEncodeOk =>
    simp only [step] at hs
    cases hw : s.writer <;> simp only [hw] at hs <;> first | (cases hs; done) | skip
    rename_i a
    injection hs with hs; subst hs
    refine ⟨?_, hi.fresh, hi.drainedNoLocked, hi.readerGone, ?_, hi.drainedIff, hi.finishedEmpty, hi.doneIff, hi.quitConn⟩
    · intro id
      have hp := hi.part id
      rw [cnt_def] at hp ⊢
      simp only [inWriter, hw, ansIds] at hp ⊢
      exact hp
    · intro h; have := hi.writerGone h; rw [hw] at this; cases this
  | wEncodeFail =>
    simp only [step] at hs
    cases hw : s.writer <;> simp only [hw] at hs <;> first | (cases hs; done) | skip
    rename_i a
    injection hs with hs; subst hs
    refine ⟨?_, hi.fresh, hi.drainedNoLocked, ?_, fun _ => rfl, hi.drainedIff, hi.finishedEmpty, hi.doneIff, fun _ => rfl⟩
    · intro id
      have hp := hi.part id
      rw [cnt_def] at hp ⊢
      rw [ansIds_answer]; simp only [ansIds] at hp ⊢
      simp only [answer, inWriter, hw] at hp ⊢
      simp only [List.count_cons, List.count_nil] at hp ⊢
      by_cases hid : a = id
      · subst hid; simp at hp ⊢; omega
      · have : ¬ id = a := fun h => hid h.symm
        simp [hid, this] at hp ⊢; omega
    · intro h; exact ⟨(hi.readerGone h).1, rfl⟩
  | wHandoff =>
    simp only [step] at hs
    cases hw : s.writer <;> simp only [hw] at hs <;> first | (cases hs; done) | skip
    rename_i a
    by_cases hc : s.processing.length < s.cap
    · rw [if_pos hc] at hs
      injection hs with hs; subst hs
      refine ⟨?_, hi.fresh, hi.drainedNoLocked, hi.readerGone, ?_, hi.drainedIff, ?_, hi.doneIff, hi.quitConn⟩
      · intro id
        have hp := hi.part id
        rw [cnt_def] at hp ⊢
        simp only [inWriter, hw, ansIds] at hp ⊢
        rw [count_snoc]
        simp only [List.count_cons, List.count_nil] at hp ⊢
        by_cases hid : a = id
        · subst hid; simp at hp ⊢; omega
        · have : ¬ id = a := fun h => hid h.symm
          simp [hid, this] at hp ⊢; omega
      · intro h; have := hi.writerGone h; rw [hw] at this; cases this
      · intro h; have := hi.writerGone (Or.inr (Or.inr h)); rw [hw] at this; cases this
    · simp [hc] at hs
  | wHandoffQuit =>
    simp only [step] at hs
    cases hw : s.writer <;> simp only [hw] at hs <;> first | (cases hs; done) | skip
    rename_i a
    by_cases hc : s.quit = true
    · rw [if_pos hc] at hs
      injection hs with hs; subst hs
      refine ⟨?_, hi.fresh, hi.drainedNoLocked, ?_, fun _ => rfl, hi.drainedIff, hi.finishedEmpty, hi.doneIff, fun _ => rfl⟩
      · intro id
        have hp := hi.part id
        rw [cnt_def] at hp ⊢
        rw [ansIds_answer]; simp only [ansIds] at hp ⊢
        simp only [answer, inWriter, hw] at hp ⊢
        simp only [List.count_cons, List.count_nil] at hp ⊢
        by_cases hid : a = id
        · subst hid; simp at hp ⊢; omega
        · have : ¬ id = a := fun h => hid h.symm
          simp [hid, this] at hp ⊢; omega
      · intro h; exact ⟨(hi.readerGone h).1, rfl⟩
    · simp [hc] at hs
  | rDecodeOk =>
    simp only [step] at hs
    by_cases hc : s.reader = .decode
    · rw [if_pos hc] at hs
      injection hs with hs; subst hs
      refine ⟨?_, hi.fresh, hi.drainedNoLocked, ?_, hi.writerGone, hi.drainedIff, hi.finishedEmpty, hi.doneIff, hi.quitConn⟩
      · intro id
        have hp := hi.part id
        rw [cnt_def] at hp ⊢
        simp only [inWriter, ansIds] at hp ⊢
        exact hp
      · intro h; have := (hi.readerGone h).1; rw [hc] at this; cases this
    · simp [hc] at hs
  | rDecodeErr =>
    simp only [step] at hs
    by_cases hc : s.reader = .decode
    · rw [if_pos hc] at hs
      injection hs with hs; subst hs
      refine ⟨?_, hi.fresh, hi.drainedNoLocked, ?_, hi.writerGone, hi.drainedIff, hi.finishedEmpty, hi.doneIff, hi.quitConn⟩
      · intro id
        have hp := hi.part id
        rw [cnt_def] at hp ⊢
        simp only [inWriter, ansIds] at hp ⊢
        exact hp
      · intro h; exact ⟨rfl, (hi.readerGone h).2⟩
    · simp [hc] at hs
  | rPair =>
    simp only [step] at hs
    cases hr : s.reader <;> simp only [hr] at hs <;> first | (cases hs; done) | skip
    cases hpq : s.processing with
    | nil => simp [hpq] at hs
    | cons a rest =>
      simp only [hpq] at hs
      injection hs with hs; subst hs
      refine ⟨?_, hi.fresh, hi.drainedNoLocked, ?_, hi.writerGone, hi.drainedIff, ?_, hi.doneIff, hi.quitConn⟩
      · intro id
        have hp := hi.part id
        rw [cnt_def] at hp ⊢
        rw [ansIds_answer]; simp only [ansIds] at hp ⊢
        simp only [answer, inWriter, hpq] at hp ⊢
        rw [count_cons'] at hp
        omega
      · intro h; have := (hi.readerGone h).1; rw [hr] at this; cases this
      · intro h; have := hi.finishedEmpty h; rw [hpq] at this; cases this.2
  | rPairQuit =>
    simp only [step] at hs
    by_cases hc : s.reader = .have ∧ s.quit = true
    · rw [if_pos hc] at hs
      injection hs with hs; subst hs
      refine ⟨?_, hi.fresh, hi.drainedNoLocked, ?_, hi.writerGone, hi.drainedIff, hi.finishedEmpty, hi.doneIff, hi.quitConn⟩
      · intro id
        have hp := hi.part id
        rw [cnt_def] at hp ⊢
        simp only [inWriter, ansIds] at hp ⊢
        exact hp
      · intro _; exact ⟨rfl, hc.2⟩
    · simp [hc] at hs
  | sReaderGone =>
    simp only [step] at hs
    by_cases hc : s.starter = .waitReader ∧ s.reader = .exited
    · rw [if_pos hc] at hs
      injection hs with hs; subst hs
      refine ⟨?_, hi.fresh, hi.drainedNoLocked, fun _ => ⟨hc.2, rfl⟩, ?_, ?_, ?_, ?_, fun _ => rfl⟩
      · intro id
        have hp := hi.part id
        rw [cnt_def] at hp ⊢
        simp only [inWriter, ansIds] at hp ⊢
        exact hp
      · intro h; rcases h with h | h | h <;> cases h
      · have := hi.drainedIff; rw [hc.1] at this; simpa using this
      · intro h; cases h
      · have := hi.doneIff; rw [hc.1] at this; simpa using this
    · simp [hc] at hs
  | sWriterGone =>
    simp only [step] at hs
    by_cases hc : s.starter = .waitWriter ∧ s.writer = .exited
    · rw [if_pos hc] at hs
      injection hs with hs; subst hs
      have hrg := hi.readerGone (by rw [hc.1]; intro h; cases h)
      refine ⟨?_, hi.fresh, hi.drainedNoLocked, fun _ => hrg, fun _ => hc.2, ?_, ?_, ?_, hi.quitConn⟩
      · intro id
        have hp := hi.part id
        rw [cnt_def] at hp ⊢
        simp only [inWriter, ansIds] at hp ⊢
        exact hp
      · have := hi.drainedIff; rw [hc.1] at this; simpa using this
      · intro h; cases h
      · have := hi.doneIff; rw [hc.1] at this; simpa using this
    · simp [hc] at hs
  | sLock =>
    simp only [step] at hs
    by_cases hc : s.starter = .lockDrain ∧ s.locked = []
    · rw [if_pos hc] at hs
      injection hs with hs; subst hs
      have hrg := hi.readerGone (by rw [hc.1]; intro h; cases h)
      have hwg := hi.writerGone (Or.inl hc.1)
      refine ⟨?_, hi.fresh, fun _ => hc.2, fun _ => hrg, fun _ => hwg, ?_, ?_, ?_, hi.quitConn⟩
      · intro id
        have hp := hi.part id
        rw [cnt_def] at hp ⊢
        simp only [inWriter, ansIds] at hp ⊢
        exact hp
      · simp
      · intro h; cases h
      · have := hi.doneIff; rw [hc.1] at this; simpa using this
    · simp [hc] at hs
  | sDrainPending =>
    simp only [step] at hs
    cases hst : s.starter <;> simp only [hst] at hs <;> first | (cases hs; done) | skip
    cases hpq : s.pending with
    | nil => simp [hpq] at hs
    | cons a rest =>
      simp only [hpq] at hs
      injection hs with hs; subst hs
      have hrg := hi.readerGone (by rw [hst]; intro h; cases h)
      have hwg := hi.writerGone (Or.inr (Or.inl hst))
      refine ⟨?_, hi.fresh, hi.drainedNoLocked, ?_, ?_, ?_, ?_, ?_, hi.quitConn⟩
      · intro id
        have hp := hi.part id
        rw [cnt_def] at hp ⊢
        rw [ansIds_answer]; simp only [ansIds] at hp ⊢
        simp only [answer, inWriter, hpq] at hp ⊢
        rw [count_cons'] at hp
        omega
      · intro _; exact hrg
      · intro _; exact hwg
      · have := hi.drainedIff; simpa [answer, hst] using this
      · intro h; simp [answer] at h
      · have := hi.doneIff; simpa [answer, hst] using this
  | sDrainProcessing =>
    simp only [step] at hs
    cases hst : s.starter <;> simp only [hst] at hs <;> first | (cases hs; done) | skip
    cases hpq : s.processing with
    | nil => simp [hpq] at hs
    | cons a rest =>
      simp only [hpq] at hs
      injection hs with hs; subst hs
      have hrg := hi.readerGone (by rw [hst]; intro h; cases h)
      have hwg := hi.writerGone (Or.inr (Or.inl hst))
      refine ⟨?_, hi.fresh, hi.drainedNoLocked, ?_, ?_, ?_, ?_, ?_, hi.quitConn⟩
      · intro id
        have hp := hi.part id
        rw [cnt_def] at hp ⊢
        rw [ansIds_answer]; simp only [ansIds] at hp ⊢
        simp only [answer, inWriter, hpq] at hp ⊢
        rw [count_cons'] at hp
        omega
      · intro _; exact hrg
      · intro _; exact hwg
      · have := hi.drainedIff; simpa [answer, hst] using this
      · intro h; simp [answer] at h
      · have := hi.doneIff; simpa [answer, hst] using this
  | sDrainDone =>
    simp only [step] at hs
    by_cases hc : s.starter = .drain ∧ s.pending = [] ∧ s.processing = []
    · rw [if_pos hc] at hs
      injection hs with hs; subst hs
      have hrg := hi.readerGone (by rw [hc.1]; intro h; cases h)
      have hwg := hi.writerGone (Or.inr (Or.inl hc.1))
      have hdd : s.drained = true := hi.drainedIff.mpr (Or.inl hc.1)
      refine ⟨?_, hi.fresh, hi.drainedNoLocked, fun _ => hrg, fun _ => hwg, ?_, fun _ => ⟨hc.2.1, hc.2.2⟩, ?_, hi.quitConn⟩
      · intro id
        have hp := hi.part id
        rw [cnt_def] at hp ⊢
        simp only [inWriter, ansIds] at hp ⊢
        exact hp
      · simp [hdd]
      · simp
    · simp [hc] at hs
  | stop =>
    simp only [step] at hs
    injection hs with hs; subst hs
    refine ⟨?_, hi.fresh, hi.drainedNoLocked, ?_, hi.writerGone, hi.drainedIff, hi.finishedEmpty, hi.doneIff, fun _ => rfl⟩
    · intro id
      have hp := hi.part id
      rw [cnt_def] at hp ⊢
      simp only [inWriter, ansIds] at hp ⊢
      exact hp
    · intro h; exact ⟨(hi.readerGone h).1, rfl⟩
  | connBreak =>
    simp only [step] at hs
    injection hs with hs; subst hs
    refine ⟨?_, hi.fresh, hi.drainedNoLocked, hi.readerGone, hi.writerGone, hi.drainedIff, hi.finishedEmpty, hi.doneIff, fun _ => rfl⟩
    intro id
    have hp := hi.part id
    rw [cnt_def] at hp ⊢
    simp only [inWriter, ansIds] at hp ⊢
    exact hp

theorem inv_run (ls : List Label) : ∀ (s s' : Cl), Inv s → run s ls = some s' → Inv s' := by
  induction ls with
  | nil => intro s s' hi h; simp [run] at h; subst h; exact hi
  | cons l ls ih =>
    intro s s' hi h
    simp only [run] at h
    cases hs : step s l with
    | none => simp [hs] at h
    | some s1 => simp only [hs] at h; exact ih s1 s' (inv_step s s1 l hi hs) h

end SamVerif.Client
