import SamVerif.Model.ProcStop
/-! Helper lemmas for the Stop/session model. -/
namespace SamVerif.ProcStop

structure Inv (p : P) : Prop where
  first : p.upstreamFirst = true
  cap : 0 < p.cap
  rdQuit : p.rd = .exited → p.quit = true
  wrQuit : p.wr = .exited → p.quit = true
  ans : p.stopPc ≥ 1 → p.answered = true
  closedAns : p.connClosed = true → p.answered = true ∧ p.stopPc ≥ 2
  pcClosed : p.stopPc ≥ 2 → p.connClosed = true
  bound : p.queued ≤ p.cap
  pcMax : p.stopPc ≤ 3
  ret : p.stopPc = 3 → p.rd = .exited ∧ p.wr = .exited

theorem inv_init (cap n : Nat) (hc : 0 < cap) : Inv { upstreamFirst := true, cap := cap, toRead := n } := by
  constructor <;> simp [hc]

theorem inv_step (p p' : P) (l : Label) (hi : Inv p) (hs : step p l = some p') : Inv p' := by
  obtain ⟨h0, h1, h2, h3, h9, h4, h5, h6, h7, h8⟩ := hi
  cases l <;> simp only [step] at hs <;> (repeat' split at hs) <;> (try cases hs) <;>
    (constructor <;> simp_all <;> try omega)

theorem inv_run (ls : List Label) : ∀ (p p' : P), Inv p → run p ls = some p' → Inv p' := by
  induction ls with
  | nil => intro p p' hi h; simp [run] at h; subst h; exact hi
  | cons l ls ih =>
    intro p p' hi h
    simp only [run] at h
    cases hs : step p l with
    | none => simp [hs] at h
    | some p1 => simp only [hs] at h; exact ih p1 p' (inv_step p p1 l hi hs) h

/-- what is left to do once the listener has closed the connection -/
def mu (p : P) : Nat :=
  (match p.rd with | .room => 5 | .decode => 2 | .exited => 0) +
  (match p.wr with | .top => 1 | .reply => 2 | .exited => 0) + 2 * p.queued + (3 - p.stopPc)

theorem closed_step_decreases (p p' : P) (l : Label) (hi : Inv p) (hc : p.connClosed = true) (hs : step p l = some p') :
    mu p' < mu p ∧ p'.connClosed = true := by
  obtain ⟨h0, h1, h2, h3, h9, h4, h5, h6, h7, h8⟩ := hi
  have h4' := h4 hc
  cases l <;> simp only [step] at hs <;> (repeat' split at hs) <;> (try cases hs) <;>
    (simp_all [mu] <;> try omega) <;>
    (rename_i hq; rcases hq.1 with e | e <;> simp [e])


/-- once the listener has closed the connection something can always move until Stop has returned -/
theorem progress (p : P) (hi : Inv p) (hc : p.connClosed = true) (hn : p.stopPc ≠ 3) :
    ∃ l, (step p l).isSome = true := by
  obtain ⟨h0, h1, h2, h3, h9, h4, h5, h6, h7, h8⟩ := hi
  have hans := (h4 hc).1
  have hpc : p.stopPc = 2 := by have := (h4 hc).2; omega
  cases hrd : p.rd with
  | decode => exact ⟨.rSeesClose, by simp [step, hrd, hc]⟩
  | room =>
    by_cases hroom : p.queued < p.cap
    · exact ⟨.rEnqueue, by simp [step, hrd, hroom]⟩
    · have hq : p.queued > 0 := by omega
      cases hwr : p.wr with
      | top => exact ⟨.wTake, by simp [step, hwr, hq]⟩
      | reply => exact ⟨.wWriteFails, by simp [step, hwr, hans, hc]⟩
      | exited => exact ⟨.rQuit, by simp [step, hrd, h3 hwr]⟩
  | exited =>
    have hquit := h2 hrd
    cases hwr : p.wr with
    | top => exact ⟨.wQuit, by simp [step, hwr, hquit]⟩
    | reply => exact ⟨.wQuit, by simp [step, hwr, hquit]⟩
    | exited => exact ⟨.stopWaited, by simp [step, h0, hpc, hrd, hwr]⟩

theorem wind_down (ls : List Label) : ∀ (p p' : P), Inv p → p.connClosed = true → run p ls = some p' →
    mu p' + ls.length ≤ mu p ∧ Inv p' ∧ p'.connClosed = true := by
  induction ls with
  | nil => intro p p' hi hc h; simp [run] at h; subst h; exact ⟨by simp, hi, hc⟩
  | cons l ls ih =>
    intro p p' hi hc h
    simp only [run] at h
    cases hs : step p l with
    | none => simp [hs] at h
    | some p1 =>
      simp only [hs] at h
      have hd := closed_step_decreases p p1 l hi hc hs
      have := ih p1 p' (inv_step p p1 l hi hs) hd.2 h
      exact ⟨by simp only [List.length_cons]; omega, this.2⟩

end SamVerif.ProcStop
