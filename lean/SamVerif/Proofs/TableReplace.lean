import SamVerif.Model.TableReplace
namespace SamVerif.TableReplace

def Inv (s : T) : Prop :=
  s.old = false ∧ (∀ id ∈ s.running, s.table = some id) ∧ (∀ id ∈ s.running, id ∉ s.stopping) ∧
  (∀ id ∈ s.running, id < s.next) ∧ (∀ id ∈ s.stopping, id < s.next)


theorem inv_step (s s' : T) (l : Label) (h : Inv s) (hs : step s l = some s') : Inv s' := by
  obtain ⟨ho, h1, h2, h3, h4⟩ := h
  cases l with
  | create =>
    simp only [step] at hs
    split at hs
    · rename_i ht
      cases hs
      have hempty : s.running = [] := by
        cases hr : s.running with
        | nil => rfl
        | cons a as => have := h1 a (by simp [hr]); rw [ht] at this; cases this
      refine ⟨ho, ?_, ?_, ?_, ?_⟩
      · intro id hid; simp [hempty] at hid; simp [hid]
      · intro id hid hst; simp [hempty] at hid; subst hid; have := h4 _ hst; omega
      · intro id hid; simp [hempty] at hid; subst hid; simp
      · intro id hid; have := h4 id hid; simp; omega
    · cases hs
  | replaceAll =>
    simp only [step] at hs
    split at hs
    · rename_i id ht
      cases hs
      have hrun : s.running.filter (· != id) = [] := by
        rw [List.filter_eq_nil_iff]
        intro a ha; have := h1 a ha; rw [ht] at this; cases this; simp
      refine ⟨ho, ?_, ?_, ?_, ?_⟩
      · intro a ha; simp [hrun] at ha
      · intro a ha; simp [hrun] at ha
      · intro a ha; simp [hrun] at ha
      · intro a ha
        by_cases hm : id ∈ s.running
        · simp [hm] at ha; rcases ha with rfl | ha
          · exact h3 _ hm
          · exact h4 _ ha
        · simp [hm] at ha; exact h4 _ ha
    · cases hs; exact ⟨ho, h1, h2, h3, h4⟩
  | lost id =>
    simp only [step] at hs
    split at hs
    · rename_i hm
      cases hs
      refine ⟨ho, ?_, ?_, ?_, ?_⟩
      · intro a ha; exact h1 a (List.mem_filter.mp ha).1
      · intro a ha hst
        have ha' := List.mem_filter.mp ha
        simp at hst; rcases hst with rfl | hst
        · simp at ha'
        · exact h2 a ha'.1 hst
      · intro a ha; exact h3 a (List.mem_filter.mp ha).1
      · intro a ha; simp at ha; rcases ha with rfl | ha
        · exact h3 _ hm
        · exact h4 _ ha
    · cases hs
  | ended id =>
    simp only [step] at hs
    split at hs
    · rename_i hm
      cases hs
      simp only [ho, Bool.false_eq_true, ↓reduceIte]
      refine ⟨rfl, ?_, ?_, ?_, ?_⟩
      · intro a ha
        have hta := h1 a ha
        have hne : a ≠ id := fun e => by subst e; exact absurd hm (h2 _ ha)
        show (if s.table = some id then none else s.table) = some a
        rw [hta]; simp [hne]
      · intro a ha hst; exact h2 a ha (List.mem_filter.mp hst).1
      · exact h3
      · intro a ha; exact h4 a (List.mem_filter.mp ha).1
    · cases hs
  | stop =>
    simp only [step] at hs
    split at hs
    · rename_i id ht
      cases hs
      have hrun : s.running.filter (· != id) = [] := by
        rw [List.filter_eq_nil_iff]
        intro a ha; have := h1 a ha; rw [ht] at this; cases this; simp
      refine ⟨ho, ?_, ?_, ?_, ?_⟩
      · intro a ha; simp [hrun] at ha
      · intro a ha; simp [hrun] at ha
      · intro a ha; simp [hrun] at ha
      · intro a ha
        by_cases hm : id ∈ s.running
        · simp [hm] at ha; rcases ha with rfl | ha
          · exact h3 _ hm
          · exact h4 _ ha
        · simp [hm] at ha; exact h4 _ ha
    · cases hs; exact ⟨ho, h1, h2, h3, h4⟩

theorem inv_run (s s' : T) (ls : List Label) (h : Inv s) (hr : run s ls = some s') : Inv s' := by
  induction ls generalizing s with
  | nil => simp only [run] at hr; cases hr; exact h
  | cons l ls ih =>
    simp only [run] at hr
    split at hr
    · rename_i s1 hs; exact ih s1 (inv_step s s1 l h hs) hr
    · cases hr

end SamVerif.TableReplace
