/-
C15, concurrency: a health mark is two steps (flag CAS outside the lock, map update under it);
every interleaving of such marks with additions, removals and replacements is simulated by a
history of atomic operations (ghost state), which the invariant of `Proofs.HostSet` covers.
-/
import SamVerif.Proofs.HostSet
namespace SamVerif.HostSet
open SamVerif.Proofs.HostSet

theorem mark_split (s : State) (o : Obj) (p : Bool) :
    mark s o p = if s.flag o.id = p then (s, false) else markApply (markCas s o p) o p := by
  unfold mark markApply markCas
  split <;> rfl

def withFlag (a : State) (f : Nat → Bool) : State := { a with flag := f }

theorem removeOne_withFlag (a : State) (f : Nat → Bool) (o : Obj) :
    removeOne (withFlag a f) o = withFlag (removeOne a o) f := rfl

theorem remove_withFlag (os : List Obj) : ∀ (a : State) (f : Nat → Bool),
    remove (withFlag a f) os = withFlag (remove a os) f := by
  induction os with
  | nil => intro a f; rfl
  | cons o rest ih => intro a f; simp only [remove, List.foldl_cons, removeOne_withFlag]; exact ih _ f

theorem stored_withFlag (a : State) (f : Nat → Bool) : stored (withFlag a f) = stored a := rfl

theorem storedTier_withFlag (a : State) (f : Nat → Bool) (x : Nat) (e : Option Nat) :
    storedTier (withFlag a f) x e = storedTier a x e := rfl

theorem addOneSeen_withFlag (a : State) (f : Nat → Bool) (o : Obj) :
    addOneSeen (withFlag a f) o = withFlag (addOneSeen a o) f := rfl

theorem addOneRepl_withFlag (a : State) (f : Nat → Bool) (o : Obj) (h : f o.id = a.flag o.id) :
    addOneRepl (withFlag a f) o = withFlag (addOneRepl a o) f := by
  unfold addOneRepl withFlag storedTier typOf
  simp only [h]

theorem addOne_withFlag (a : State) (f : Nat → Bool) (o : Obj) (h : f o.id = a.flag o.id) :
    addOne (withFlag a f) o = withFlag (addOne a o) f := by
  unfold addOne
  rw [storedTier_withFlag]
  split
  · exact addOneSeen_withFlag a f o
  · exact addOneRepl_withFlag a f o h


theorem state_ext (s t : State) (h1 : s.all = t.all) (h2 : s.hMain = t.hMain) (h3 : s.hBackup = t.hBackup)
    (h4 : s.reg = t.reg) (h5 : s.flag = t.flag) (h6 : s.removed = t.removed) (h7 : s.dom = t.dom) : s = t := by
  cases s; cases t; simp_all

theorem upd_idem {β : Type} (g : Nat → β) (k : Nat) (v : β) : upd (upd g k v) k v = upd g k v := by
  funext x; unfold upd; split <;> rfl

theorem upd_same {β : Type} (g : Nat → β) (k : Nat) (v : β) (h : g k = v) : upd g k v = g := by
  funext x; unfold upd; split
  · rename_i e; rw [e, h]
  · rfl

theorem addOne_flag (s : State) (o : Obj) : (addOne s o).flag = s.flag := by
  unfold addOne; split <;> rfl

theorem removeOne_flag (s : State) (o : Obj) : (removeOne s o).flag = s.flag := rfl

theorem mark_flag (s : State) (o : Obj) (p : Bool) (i : Nat) :
    (mark s o p).1.flag i = if i = o.id then p else s.flag i := by
  unfold mark
  by_cases h : s.flag o.id = p
  · simp only [h, if_true]
    by_cases hi : i = o.id
    · subst hi; simp [h]
    · simp [hi]
  · simp only [h, if_false, upd]

/-- `addOne` of an object that is itself stored under its address -/
theorem addOne_stored_same (s : State) (o : Obj) (h : s.all o.addr = some o.id) :
    addOne s o =
      { s with
        all := upd s.all o.addr (some o.id)
        reg := upd s.reg o.id (some (o.addr, o.main))
        dom := if s.dom.contains o.addr then s.dom else o.addr :: s.dom
        hMain := if s.flag o.id = true ∧ o.main = true then upd s.hMain o.addr (some o.id) else s.hMain
        hBackup := if s.flag o.id = true ∧ o.main = false then upd s.hBackup o.addr (some o.id) else s.hBackup } := by
  have ht : storedTier s o.addr (some o.id) = none := by unfold storedTier; simp [h]
  unfold addOne
  rw [ht]
  simp only [reduceCtorEq, if_false]
  unfold addOneRepl
  simp only [ht, reduceCtorEq, if_false]



theorem typ_of_member (attr : Nat → Nat × Bool) (a : State) (o : Obj) (hi : Inv a) (hr : RegOk attr a) (hw : WF attr o)
    (hm : a.all o.addr = some o.id) : typOf a o.id = o.main := by
  obtain ⟨m, hm'⟩ := hi.reg o.addr o.id hm
  have := consistent_of_wf attr a o hw hr o.addr m hm'
  unfold typOf; rw [hm']; exact this.2

theorem withFlag_withFlag (a : State) (f g : Nat → Bool) : withFlag (withFlag a g) f = withFlag a f := rfl

/-- one host of `Set.add` under a mark in flight: the ghost (atomic) state follows after, at most,
taking the mark's effect first -/
theorem addOne_sim (attr : Nat → Nat × Bool) (a : State) (f : Nat → Bool) (o : Obj)
    (hi : Inv a) (hr : RegOk attr a) (hw : WF attr o) :
    ∃ a1, (a1 = a ∨ a1 = (mark a o (f o.id)).1) ∧ (f o.id = a.flag o.id → a1 = a) ∧
      addOne (withFlag a f) o = withFlag (addOne a1 o) f := by
  by_cases h : f o.id = a.flag o.id
  · exact ⟨a, Or.inl rfl, fun _ => rfl, addOne_withFlag a f o h⟩
  · by_cases hm : a.all o.addr = some o.id
    · have hty := typ_of_member attr a o hi hr hw hm
      cases hp : f o.id with
      | false =>
        -- the stored object, flagged unhealthy by a mark in flight: its entry stays until the mark's second half
        have hfl : a.flag o.id = true := by
          cases hh : a.flag o.id with
          | true => rfl
          | false => rw [hp, hh] at h; exact absurd rfl h
        refine ⟨a, Or.inl rfl, fun e => rfl, ?_⟩
        have hm' : (withFlag a f).all o.addr = some o.id := hm
        rw [addOne_stored_same _ o hm', addOne_stored_same a o hm]
        apply state_ext <;> try rfl
        · show (if f o.id = true ∧ o.main = true then upd a.hMain o.addr (some o.id) else a.hMain) =
            (if a.flag o.id = true ∧ o.main = true then upd a.hMain o.addr (some o.id) else a.hMain)
          rw [hp, hfl]
          by_cases hom : o.main = true
          · simp only [hom, and_self, if_true, Bool.false_eq_true, false_and, if_false]
            exact (upd_same _ _ _ ((hi.main o.addr o.id).mpr ⟨hm, by rw [hty]; exact hom, hfl⟩)).symm
          · simp [hom]
        · show (if f o.id = true ∧ o.main = false then upd a.hBackup o.addr (some o.id) else a.hBackup) =
            (if a.flag o.id = true ∧ o.main = false then upd a.hBackup o.addr (some o.id) else a.hBackup)
          rw [hp, hfl]
          by_cases hom : o.main = false
          · simp only [hom, and_self, if_true, Bool.false_eq_true, false_and, if_false]
            exact (upd_same _ _ _ ((hi.backup o.addr o.id).mpr ⟨hm, by rw [hty]; exact hom, hfl⟩)).symm
          · simp [hom]
      | true =>
        have hfl : a.flag o.id = false := by
          cases hh : a.flag o.id with
          | false => rfl
          | true => rw [hp, hh] at h; exact absurd rfl h
        refine ⟨(mark a o true).1, Or.inr rfl, (fun e => by rw [hfl] at e; cases e), ?_⟩
        have hmk : (mark a o true).1 =
            { a with flag := upd a.flag o.id true
                     hMain := if o.main = true then upd a.hMain o.addr (some o.id) else a.hMain
                     hBackup := if o.main = false then upd a.hBackup o.addr (some o.id) else a.hBackup } := by
          simp [mark, hfl, hm]
        have hm1 : (mark a o true).1.all o.addr = some o.id := by rw [hmk]; exact hm
        have hm' : (withFlag a f).all o.addr = some o.id := hm
        rw [addOne_stored_same _ o hm', addOne_stored_same _ o hm1, hmk]
        apply state_ext <;> try rfl
        · show (if f o.id = true ∧ o.main = true then upd a.hMain o.addr (some o.id) else a.hMain) =
            (if upd a.flag o.id true o.id = true ∧ o.main = true then
              upd (if o.main = true then upd a.hMain o.addr (some o.id) else a.hMain) o.addr (some o.id)
             else (if o.main = true then upd a.hMain o.addr (some o.id) else a.hMain))
          have : upd a.flag o.id true o.id = true := by simp [upd]
          rw [hp, this]
          by_cases hom : o.main = true
          · simp only [hom, and_self, if_true, upd_idem]
          · simp [hom]
        · show (if f o.id = true ∧ o.main = false then upd a.hBackup o.addr (some o.id) else a.hBackup) =
            (if upd a.flag o.id true o.id = true ∧ o.main = false then
              upd (if o.main = false then upd a.hBackup o.addr (some o.id) else a.hBackup) o.addr (some o.id)
             else (if o.main = false then upd a.hBackup o.addr (some o.id) else a.hBackup))
          have : upd a.flag o.id true o.id = true := by simp [upd]
          rw [hp, this]
          by_cases hom : o.main = false
          · simp only [hom, and_self, if_true, upd_idem]
          · simp [hom]
    · -- not the stored object: the mark in flight only sets the ghost's flag
      refine ⟨(mark a o (f o.id)).1, Or.inr rfl, fun e => absurd e h, ?_⟩
      have hne : ¬ (a.flag o.id = f o.id) := fun e => h e.symm
      have hmk : (mark a o (f o.id)).1 = withFlag a (upd a.flag o.id (f o.id)) := by
        unfold mark
        simp only [hne, if_false, hm, false_and]
        rfl
      rw [hmk]
      have : withFlag a f = withFlag (withFlag a (upd a.flag o.id (f o.id))) f := rfl
      rw [this]
      exact addOne_withFlag _ f o (by simp [withFlag, upd])


/-- an entry of tier `b` for the stored object `o` agrees with its ghost flag -/
theorem tier_entry (a : State) (o : Obj) (b : Bool) (g : Nat → Option Nat)
    (hg : ∀ x i, g x = some i ↔ (a.all x = some i ∧ typOf a i = b ∧ a.flag i = true))
    (hm : a.all o.addr = some o.id) (hty : typOf a o.id = b) :
    g o.addr = if a.flag o.id then some o.id else none := by
  cases hfl : a.flag o.id with
  | true => simp only [if_true]; exact (hg o.addr o.id).mpr ⟨hm, hty, hfl⟩
  | false =>
    simp only [Bool.false_eq_true, if_false]
    cases hx : g o.addr with
    | none => rfl
    | some i =>
      have := (hg o.addr i).mp hx
      rw [hm] at this
      have hid : o.id = i := by injection this.1
      rw [← hid, hfl] at this
      exact absurd this.2.2 (by simp)

/-- the locked half of a mark in flight: the ghost takes the whole (atomic) mark -/
theorem apply_sim (attr : Nat → Nat × Bool) (a : State) (f : Nat → Bool) (o : Obj)
    (hi : Inv a) (hr : RegOk attr a) (hw : WF attr o) :
    (markApply (withFlag a f) o (f o.id)).1 = withFlag (mark a o (f o.id)).1 f := by
  by_cases h : a.flag o.id = f o.id
  · have hmk : (mark a o (f o.id)).1 = a := by unfold mark; simp [h]
    rw [hmk]
    unfold markApply
    apply state_ext <;> try rfl
    · show (if a.all o.addr = some o.id ∧ o.main = true then upd a.hMain o.addr (if f o.id = true then some o.id else none) else a.hMain) = a.hMain
      by_cases hc : a.all o.addr = some o.id ∧ o.main = true
      · rw [if_pos hc]
        have hty := typ_of_member attr a o hi hr hw hc.1
        apply upd_same
        rw [tier_entry a o true a.hMain hi.main hc.1 (by rw [hty]; exact hc.2), h]
      · rw [if_neg hc]
    · show (if a.all o.addr = some o.id ∧ o.main = false then upd a.hBackup o.addr (if f o.id = true then some o.id else none) else a.hBackup) = a.hBackup
      by_cases hc : a.all o.addr = some o.id ∧ o.main = false
      · rw [if_pos hc]
        have hty := typ_of_member attr a o hi hr hw hc.1
        apply upd_same
        rw [tier_entry a o false a.hBackup hi.backup hc.1 (by rw [hty]; exact hc.2), h]
      · rw [if_neg hc]
  · have hmk : (mark a o (f o.id)).1 = (markApply (markCas a o (f o.id)) o (f o.id)).1 := by
      rw [mark_split]; simp [h]
    rw [hmk]
    rfl



/-- states reachable by atomic operations (marks taken in one step) -/
inductive Atomic (attr : Nat → Nat × Bool) : State → Prop
  | init : Atomic attr init
  | addOne {a : State} (o : Obj) (hw : WF attr o) : Atomic attr a → Atomic attr (addOne a o)
  | removeOne {a : State} (o : Obj) (hw : WF attr o) : Atomic attr a → Atomic attr (removeOne a o)
  | mark {a : State} (o : Obj) (p : Bool) (hw : WF attr o) : Atomic attr a → Atomic attr (mark a o p).1

theorem regOk_mark' (attr : Nat → Nat × Bool) (s : State) (o : Obj) (h : Bool) (hr : RegOk attr s) :
    RegOk attr (mark s o h).1 := by
  unfold mark
  by_cases hfl : s.flag o.id = h
  · simpa [hfl] using hr
  · simp only [hfl, if_false]; exact hr

theorem atomic_inv (attr : Nat → Nat × Bool) (a : State) (h : Atomic attr a) : Inv a ∧ RegOk attr a := by
  induction h with
  | init => exact ⟨inv_init, fun i x h => by simp [init] at h⟩
  | addOne o hw _ ih => exact ⟨inv_addOne _ o ih.1 (consistent_of_wf attr _ o hw ih.2), regOk_addOne attr _ o hw ih.2⟩
  | removeOne o hw _ ih => exact ⟨inv_removeOne _ o ih.1 (consistent_of_wf attr _ o hw ih.2), regOk_removeOne attr _ o hw ih.2⟩
  | mark o p hw _ ih => exact ⟨inv_mark _ o p ih.1 (consistent_of_wf attr _ o hw ih.2), regOk_mark' attr _ o p ih.2⟩

/-- the ghost relation: same membership and maps, flags agree except for marks in flight -/
def Ghost (attr : Nat → Nat × Bool) (c : CS) : Prop :=
  ∃ a, Atomic attr a ∧ c.st = withFlag a c.st.flag ∧ ∀ i, c.pend i = false → a.flag i = c.st.flag i

theorem add_sim (attr : Nat → Nat × Bool) (pend : Nat → Bool) (f : Nat → Bool) : ∀ (os : List Obj) (a : State),
    Atomic attr a → (∀ o ∈ os, WF attr o) → (∀ i, pend i = false → a.flag i = f i) →
    ∃ a', Atomic attr a' ∧ add (withFlag a f) os = withFlag a' f ∧ (∀ i, pend i = false → a'.flag i = f i) := by
  intro os
  induction os with
  | nil => intro a ha _ hag; exact ⟨a, ha, rfl, hag⟩
  | cons o rest ih =>
    intro a ha hw hag
    have hwo := hw o (by simp)
    obtain ⟨hi, hr⟩ := atomic_inv attr a ha
    obtain ⟨a1, h1, h1', heq⟩ := addOne_sim attr a f o hi hr hwo
    have ha1 : Atomic attr a1 := by
      rcases h1 with e | e
      · rw [e]; exact ha
      · rw [e]; exact Atomic.mark o _ hwo ha
    have hag1 : ∀ i, pend i = false → a1.flag i = f i := by
      intro i hp
      rcases h1 with e | e
      · rw [e]; exact hag i hp
      · rw [e, mark_flag]
        by_cases hio : i = o.id
        · simp [hio]
        · simp only [hio, if_false]; exact hag i hp
    have ha2 : Atomic attr (addOne a1 o) := Atomic.addOne o hwo ha1
    have hag2 : ∀ i, pend i = false → (addOne a1 o).flag i = f i := by
      intro i hp; rw [addOne_flag]; exact hag1 i hp
    obtain ⟨a', hA, hE, hG⟩ := ih (addOne a1 o) ha2 (fun x hx => hw x (by simp [hx])) hag2
    refine ⟨a', hA, ?_, hG⟩
    show add (addOne (withFlag a f) o) rest = withFlag a' f
    rw [heq]; exact hE

theorem remove_atomic (attr : Nat → Nat × Bool) : ∀ (os : List Obj) (a : State),
    Atomic attr a → (∀ o ∈ os, WF attr o) → Atomic attr (remove a os) ∧ (remove a os).flag = a.flag := by
  intro os
  induction os with
  | nil => intro a ha _; exact ⟨ha, rfl⟩
  | cons o rest ih =>
    intro a ha hw
    have := ih (removeOne a o) (Atomic.removeOne o (hw o (by simp)) ha) (fun x hx => hw x (by simp [hx]))
    exact ⟨this.1, this.2⟩

theorem ghost_init (attr : Nat → Nat × Bool) : Ghost attr { st := init } :=
  ⟨init, Atomic.init, rfl, fun _ _ => rfl⟩

theorem ghost_step (attr : Nat → Nat × Bool) (c c' : CS) (op : COp) (hw : ∀ o ∈ op.objs, WF attr o)
    (hg : Ghost attr c) (hs : cstep c op = some c') : Ghost attr c' := by
  obtain ⟨a, ha, hst, hag⟩ := hg
  cases op with
  | add os =>
    simp only [cstep] at hs; injection hs with hs; subst hs
    obtain ⟨a', hA, hE, hG⟩ := add_sim attr c.pend c.st.flag os a ha hw hag
    rw [← hst] at hE
    have hfl : (add c.st os).flag = c.st.flag := by rw [hE]; rfl
    exact ⟨a', hA, by show add c.st os = withFlag a' (add c.st os).flag; rw [hfl]; exact hE,
      fun i hp => by show a'.flag i = (add c.st os).flag i; rw [hfl]; exact hG i hp⟩
  | remove os =>
    simp only [cstep] at hs; injection hs with hs; subst hs
    have hr := remove_atomic attr os a ha hw
    have hE : remove c.st os = withFlag (remove a os) c.st.flag := by rw [hst]; exact remove_withFlag os a _
    have hfl : (remove c.st os).flag = c.st.flag := by rw [hE]; rfl
    exact ⟨remove a os, hr.1, by show remove c.st os = withFlag _ (remove c.st os).flag; rw [hfl]; exact hE,
      fun i hp => by show (remove a os).flag i = (remove c.st os).flag i; rw [hfl, hr.2]; exact hag i hp⟩
  | replaceAll os =>
    simp only [cstep] at hs; injection hs with hs; subst hs
    obtain ⟨hi, hrg⟩ := atomic_inv attr a ha
    have hsw := stored_wf attr a hi hrg
    have hr := remove_atomic attr (stored a) a ha hsw
    have hE1 : remove c.st (stored c.st) = withFlag (remove a (stored a)) c.st.flag := by
      rw [hst]; exact remove_withFlag _ a _
    obtain ⟨a', hA, hE, hG⟩ := add_sim attr c.pend c.st.flag os (remove a (stored a)) hr.1 hw
      (fun i hp => by rw [hr.2]; exact hag i hp)
    have hE2 : replaceAll c.st os = withFlag a' c.st.flag := by
      unfold replaceAll; rw [hE1]; exact hE
    have hfl : (replaceAll c.st os).flag = c.st.flag := by rw [hE2]; rfl
    exact ⟨a', hA, by show replaceAll c.st os = withFlag a' (replaceAll c.st os).flag; rw [hfl]; exact hE2,
      fun i hp => by show a'.flag i = (replaceAll c.st os).flag i; rw [hfl]; exact hG i hp⟩
  | cas o p =>
    simp only [cstep] at hs
    split at hs
    · injection hs with hs; subst hs
      refine ⟨a, ha, ?_, ?_⟩
      · show markCas c.st o p = withFlag a (markCas c.st o p).flag
        rw [hst]; rfl
      · intro i hp
        show a.flag i = upd c.st.flag o.id p i
        simp only [upd] at hp ⊢
        by_cases hio : i = o.id
        · simp [hio] at hp
        · simp only [hio, if_false] at hp ⊢; exact hag i hp
    · cases hs
  | apply o =>
    simp only [cstep] at hs
    split at hs
    · injection hs with hs; subst hs
      obtain ⟨hi, hrg⟩ := atomic_inv attr a ha
      have hwo := hw o (by simp [COp.objs])
      have hE : (markApply c.st o (c.st.flag o.id)).1 = withFlag (mark a o (c.st.flag o.id)).1 c.st.flag := by
        have := apply_sim attr a c.st.flag o hi hrg hwo
        rw [← hst] at this; exact this
      have hfl : (markApply c.st o (c.st.flag o.id)).1.flag = c.st.flag := rfl
      refine ⟨(mark a o (c.st.flag o.id)).1, Atomic.mark o _ hwo ha, ?_, ?_⟩
      · show (markApply c.st o (c.st.flag o.id)).1 = withFlag _ (markApply c.st o (c.st.flag o.id)).1.flag
        rw [hfl]; exact hE
      · intro i hp
        show (mark a o (c.st.flag o.id)).1.flag i = c.st.flag i
        rw [mark_flag]
        by_cases hio : i = o.id
        · simp [hio]
        · simp only [upd, hio, if_false] at hp ⊢; exact hag i hp
    · cases hs

theorem ghost_run (attr : Nat → Nat × Bool) : ∀ (ops : List COp) (c c' : CS),
    (∀ op ∈ ops, ∀ o ∈ op.objs, WF attr o) → Ghost attr c → crun c ops = some c' → Ghost attr c' := by
  intro ops
  induction ops with
  | nil => intro c c' _ hg h; simp [crun] at h; subst h; exact hg
  | cons op rest ih =>
    intro c c' hw hg h
    simp only [crun] at h
    cases hs : cstep c op with
    | none => simp [hs] at h
    | some c1 =>
      simp only [hs] at h
      exact ih c1 c' (fun x hx => hw x (by simp [hx])) (ghost_step attr c c1 op (hw op (by simp)) hg hs) h

end SamVerif.HostSet
