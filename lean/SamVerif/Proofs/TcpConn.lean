import SamVerif.Model.TcpConn
/-! Helper lemmas for the connection life cycle. -/
namespace SamVerif.TcpConn

structure Inv (t : T) : Prop where
  counted : t.count = (if t.phase = .relaying then 1 else 0)
  fired : t.phase = .relaying → t.watcher = .gone → t.cOpen = false ∧ t.sOpen = false
  armedOnly : t.phase = .selecting → t.watcher = .none
  started : t.phase = .relaying → t.watcher ≠ .none
  notYet : t.phase = .selecting → t.sOpen = false
  closed : t.phase = .returned → t.cOpen = false ∧ t.sOpen = false
  loops : t.phase ≠ .relaying → t.c2s = false ∧ t.s2c = false

theorem inv_init : Inv {} := by constructor <;> simp

theorem inv_step (t t' : T) (l : Label) (hi : Inv t) (hs : step t l = some t') : Inv t' := by
  obtain ⟨h1, h2, h3, h4, h7, h5, h6⟩ := hi
  cases l <;> simp only [step] at hs <;> (repeat' split at hs) <;> (try cases hs) <;>
    (constructor <;> simp_all)

theorem inv_run (ls : List Label) : ∀ (t t' : T), Inv t → run t ls = some t' → Inv t' := by
  induction ls with
  | nil => intro t t' hi h; simp [run] at h; subst h; exact hi
  | cons l ls ih =>
    intro t t' hi h
    simp only [run] at h
    cases hs : step t l with
    | none => simp [hs] at h
    | some t1 => simp only [hs] at h; exact ih t1 t' (inv_step t t1 l hi hs) h

def b2n (b : Bool) : Nat := if b then 1 else 0

def mu (t : T) : Nat :=
  (if t.watcher = .armed then 1 else 0) + b2n t.c2s + b2n t.s2c + (if t.phase = .relaying then 1 else 0)

theorem internal_decreases (t t' : T) (l : Label) (hl : internal l = true) (hs : step t l = some t') : mu t' < mu t := by
  cases l <;> simp [internal] at hl <;> simp only [step] at hs <;> (repeat' split at hs) <;> (try cases hs) <;>
    (simp_all [mu, b2n])

theorem gone_stays (t t' : T) (l : Label) (h : t.latch = true ∨ t.quit = true) (hs : step t l = some t') :
    t'.latch = true ∨ t'.quit = true := by
  cases l <;> simp only [step] at hs <;> (repeat' split at hs) <;> (try cases hs) <;> simp_all

theorem established_stays (t t' : T) (l : Label) (h : t.phase ≠ .selecting) (hs : step t l = some t') :
    t'.phase ≠ .selecting := by
  cases l <;> simp only [step] at hs <;> (repeat' split at hs) <;> (try cases hs) <;> simp_all

/-- once the host is removed (or the processor stops), an established connection that has not been
wound up has an enabled internal step -/
theorem progress (t : T) (hi : Inv t) (he : t.phase ≠ .selecting) (hg : t.latch = true ∨ t.quit = true)
    (hn : ¬ (t.phase = .returned ∧ t.watcher ≠ .armed)) : ∃ l, internal l = true ∧ (step t l).isSome = true := by
  obtain ⟨h1, h2, h3, h4, h7, h5, h6⟩ := hi
  cases hp : t.phase with
  | selecting => exact absurd hp he
  | returned =>
    have hw : t.watcher = .armed := by
      cases hw : t.watcher with
      | armed => rfl
      | none => exact absurd ⟨hp, by simp [hw]⟩ hn
      | gone => exact absurd ⟨hp, by simp [hw]⟩ hn
    exact ⟨.watcherExit, rfl, by simp [step, hw, hp]⟩
  | relaying =>
    cases hw : t.watcher with
    | none => exact absurd hw (h4 hp)
    | armed => exact ⟨.watcherFire, rfl, by simp only [step]; rw [if_pos ⟨hw, hg⟩]; rfl⟩
    | gone =>
      have hc := h2 hp hw
      cases hc2s : t.c2s with
      | true => exact ⟨.loopBreaks true, rfl, by simp [step, hp, hc2s, hc.1]⟩
      | false =>
        cases hs2c : t.s2c with
        | true => exact ⟨.loopBreaks false, rfl, by simp [step, hp, hs2c, hc.1]⟩
        | false => exact ⟨.ret, rfl, by simp [step, hp, hc2s, hs2c]⟩

theorem run_append (t : T) (a b : List Label) : run t (a ++ b) = (run t a).bind fun t1 => run t1 b := by
  induction a generalizing t with
  | nil => rfl
  | cons l ls ih =>
    simp only [List.cons_append, run]
    cases step t l with
    | none => rfl
    | some t1 => exact ih t1

theorem wind_down (ls : List Label) : ∀ (t t' : T), Inv t → t.phase ≠ .selecting → (t.latch = true ∨ t.quit = true) →
    (∀ l ∈ ls, internal l = true) → run t ls = some t' →
    mu t' + ls.length ≤ mu t ∧ Inv t' ∧ t'.phase ≠ .selecting ∧ (t'.latch = true ∨ t'.quit = true) := by
  induction ls with
  | nil => intro t t' hi he hg _ h; simp [run] at h; subst h; exact ⟨by simp, hi, he, hg⟩
  | cons l ls ih =>
    intro t t' hi he hg hint h
    simp only [run] at h
    cases hs : step t l with
    | none => simp [hs] at h
    | some t1 =>
      simp only [hs] at h
      have hd := internal_decreases t t1 l (hint l (by simp)) hs
      have := ih t1 t' (inv_step t t1 l hi hs) (established_stays t t1 l he hs) (gone_stays t t1 l hg hs)
        (fun x hx => hint x (by simp [hx])) h
      exact ⟨by simp only [List.length_cons]; omega, this.2⟩

end SamVerif.TcpConn
