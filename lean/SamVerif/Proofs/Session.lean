import SamVerif.Model.Session
/-! Helper lemmas for C01. -/
namespace SamVerif.Session

theorem range_succ_append (n : Nat) : List.range (n + 1) = List.range n ++ [n] := List.range_succ

/-- a prefix of `0, 1, 2, …` is itself `0 … its length - 1` -/
theorem prefix_of_range (a b : List Nat) (n : Nat) (h : a ++ b = List.range n) : a = List.range a.length := by
  have hl : a.length ≤ n := by
    have := congrArg List.length h
    simp at this; omega
  have : a = (List.range n).take a.length := by
    rw [← h]; simp
  rw [this, List.take_range]
  simp [Nat.min_eq_left hl]

structure Inv (s : Sess) : Prop where
  line : line s = List.range s.nread
  doneWritten : ∀ id ∈ s.written, id ∈ s.completed

theorem inv_init (cap : Nat) : Inv { cap := cap } := ⟨rfl, by intro id h; cases h⟩

theorem inv_step (s s' : Sess) (l : Label) (hi : Inv s) (hs : step s l = some s') : Inv s' := by
  have hline := hi.line
  cases l with
  | read =>
    simp only [step] at hs
    by_cases h : s.inHand = none
    · rw [if_pos h] at hs; injection hs with hs; subst hs
      refine ⟨?_, hi.doneWritten⟩
      simp only [line, h, Option.toList_none, List.append_nil] at hline
      simp only [line, Option.toList_some, range_succ_append, ← hline]
    · simp [h] at hs
  | enqueue =>
    simp only [step] at hs
    cases h : s.inHand with
    | none => simp [h] at hs
    | some id =>
      simp only [h] at hs
      by_cases hc : s.queue.length < s.cap
      · rw [if_pos hc] at hs; injection hs with hs; subst hs
        refine ⟨?_, hi.doneWritten⟩
        simp only [line, h, Option.toList_some] at hline
        simp only [line, Option.toList_none, List.append_nil, ← hline, List.append_assoc]
      · simp [hc] at hs
  | complete id =>
    simp only [step] at hs
    by_cases hc : id < s.nread ∧ id ∉ s.completed
    · rw [if_pos hc] at hs; injection hs with hs; subst hs
      refine ⟨hline, ?_⟩
      intro x hx
      exact List.mem_append_left _ (hi.doneWritten x hx)
    · simp [hc] at hs
  | take =>
    simp only [step] at hs
    cases hw : s.waiting with
    | some x => simp [hw] at hs
    | none =>
      cases hq : s.queue with
      | nil => simp [hw, hq] at hs
      | cons id rest =>
        simp only [hw, hq] at hs; injection hs with hs; subst hs
        refine ⟨?_, hi.doneWritten⟩
        simp only [line, hw, hq, Option.toList_none, List.append_nil] at hline
        simp only [line, Option.toList_some, ← hline, List.append_assoc, List.singleton_append]
  | write =>
    simp only [step] at hs
    cases hw : s.waiting with
    | none => simp [hw] at hs
    | some id =>
      simp only [hw] at hs
      by_cases hc : id ∈ s.completed
      · rw [if_pos hc] at hs; injection hs with hs; subst hs
        constructor
        · simp only [line, hw, Option.toList_some] at hline
          simp only [line, Option.toList_none, List.append_nil, ← hline, List.append_assoc]
        · intro x hx
          rcases List.mem_append.mp hx with h | h
          · exact hi.doneWritten x h
          · simp at h; subst h; exact hc
      · simp [hc] at hs

theorem inv_run (ls : List Label) : ∀ (s s' : Sess), Inv s → run s ls = some s' → Inv s' := by
  induction ls with
  | nil => intro s s' hi h; simp [run] at h; subst h; exact hi
  | cons l ls ih =>
    intro s s' hi h
    simp only [run] at h
    cases hs : step s l with
    | none => simp [hs] at h
    | some s1 => simp only [hs] at h; exact ih s1 s' (inv_step s s1 l hi hs) h

/-! ### the wire -/

structure WInv (w : Wire) : Prop where
  order : w.paired.map (·.1) ++ w.sent ++ w.inHand.toList = w.wire
  index : w.paired.map (·.2) = List.range w.replies

theorem winv_init : WInv {} := ⟨rfl, rfl⟩

theorem winv_step (w w' : Wire) (l : WLabel) (hi : WInv w) (hs : wstep w l = some w') : WInv w' := by
  have ho := hi.order
  cases l with
  | encode id =>
    simp only [wstep] at hs
    by_cases h : w.inHand = none
    · rw [if_pos h] at hs; injection hs with hs; subst hs
      refine ⟨?_, hi.index⟩
      simp only [h, Option.toList_none, List.append_nil] at ho
      simp only [Option.toList_some, ← ho]
    · simp [h] at hs
  | handoff =>
    simp only [wstep] at hs
    cases h : w.inHand with
    | none => simp [h] at hs
    | some id =>
      simp only [h] at hs; injection hs with hs; subst hs
      refine ⟨?_, hi.index⟩
      simp only [h, Option.toList_some] at ho
      simp only [Option.toList_none, List.append_nil, ← ho, List.append_assoc]
  | pair =>
    simp only [wstep] at hs
    cases h : w.sent with
    | nil => simp [h] at hs
    | cons id rest =>
      simp only [h] at hs; injection hs with hs; subst hs
      constructor
      · simp only [h] at ho
        simp only [List.map_append, List.map_cons, List.map_nil, ← ho, List.append_assoc, List.singleton_append]
      · simp only [List.map_append, List.map_cons, List.map_nil, hi.index, range_succ_append]

theorem winv_run (ls : List WLabel) : ∀ (w w' : Wire), WInv w → wrun w ls = some w' → WInv w' := by
  induction ls with
  | nil => intro w w' hi h; simp [wrun] at h; subst h; exact hi
  | cons l ls ih =>
    intro w w' hi h
    simp only [wrun] at h
    cases hs : wstep w l with
    | none => simp [hs] at h
    | some w1 => simp only [hs] at h; exact ih w1 w' (winv_step w w1 l hi hs) h

end SamVerif.Session
