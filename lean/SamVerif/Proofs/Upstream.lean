import SamVerif.Model.Upstream
/-! Helper lemmas for C03 / C04 / C07. -/
namespace SamVerif.Upstream

/-! ### C03: the proxy over a partitioned key space refines one server -/

theorem proxy1_data (c : Cluster) (cmd : Cmd1) (k : Key) (m : Nat) :
    (proxy1 c cmd k).1.data m =
      if m = c.nodeOf k then kvUpd (c.data (c.nodeOf k)) k (cmd.eff (c.data (c.nodeOf k) k)) else c.data m := rfl

theorem proxy1_nodeOf (c : Cluster) (cmd : Cmd1) (k k' : Key) : (proxy1 c cmd k).1.nodeOf k' = c.nodeOf k' := rfl

theorem represents_exec1 (c : Cluster) (s : KV) (cmd : Cmd1) (k : Key) (h : Represents c s) :
    Represents (proxy1 c cmd k).1 (exec1 s cmd k).1 ∧ (proxy1 c cmd k).2 = (exec1 s cmd k).2 := by
  have hk : c.data (c.nodeOf k) k = s k := (h k).1
  constructor
  · intro k'
    rw [proxy1_nodeOf]
    have hk' := h k'
    constructor
    · rw [proxy1_data]
      show _ = kvUpd s k (cmd.eff (s k)) k'
      by_cases hn : c.nodeOf k' = c.nodeOf k
      · rw [if_pos hn]
        unfold kvUpd
        by_cases hkk : k' = k
        · simp [hkk, hk]
        · simp only [hkk, if_false]
          rw [← hn]; exact hk'.1
      · rw [if_neg hn]
        have hkk : k' ≠ k := fun e => hn (by rw [e])
        unfold kvUpd
        simp only [hkk, if_false]
        exact hk'.1
    · intro n hne
      rw [proxy1_data]
      by_cases hn : n = c.nodeOf k
      · rw [if_pos hn]
        have hkk : k' ≠ k := fun e => hne (by rw [hn, e])
        unfold kvUpd
        simp only [hkk, if_false]
        rw [← hn]; exact hk'.2 n hne
      · rw [if_neg hn]; exact hk'.2 n hne
  · show cmd.rep (c.data (c.nodeOf k) k) = cmd.rep (s k)
    rw [hk]

theorem proxy1_layout (c : Cluster) (cmd : Cmd1) (k : Key) :
    (proxy1 c cmd k).1.slot = c.slot ∧ (proxy1 c cmd k).1.owner = c.owner := ⟨rfl, rfl⟩

theorem represents_many (cs : List (Cmd1 × Key)) : ∀ (c : Cluster) (s : KV), Represents c s →
    Represents (proxyMany c cs).1 (execMany s cs).1 ∧ (proxyMany c cs).2 = (execMany s cs).2 := by
  induction cs with
  | nil => intro c s h; exact ⟨h, rfl⟩
  | cons p rest ih =>
    intro c s h
    obtain ⟨cmd, k⟩ := p
    have h1 := represents_exec1 c s cmd k h
    have h2 := ih (proxy1 c cmd k).1 (exec1 s cmd k).1 h1.1
    simp only [proxyMany, execMany]
    exact ⟨h2.1, by rw [h1.2, h2.2]⟩

/-! ### C04: following redirections -/

theorem follow_finds_holder (t : Truth) (present : Bool) (first : Nat)
    (hdst : ∀ d, t.target = some d → d ≠ t.owner) :
    ∃ r, follow t present 3 first false = some (holder t present, r) ∧ r ≤ 2 := by
  unfold holder
  cases ht : t.target with
  | none =>
    by_cases hf : first = t.owner
    · exact ⟨0, by simp [follow, nodeAnswer, hf, ht], by omega⟩
    · exact ⟨1, by simp [follow, nodeAnswer, hf, ht], by omega⟩
  | some dst =>
    have hne : dst ≠ t.owner := hdst dst ht
    cases present with
    | true =>
      by_cases hf : first = t.owner
      · exact ⟨0, by simp [follow, nodeAnswer, hf, ht], by omega⟩
      · refine ⟨1, ?_, by omega⟩
        by_cases hfd : first = dst
        · simp [follow, nodeAnswer, hf, ht, hfd, hne]
        · have : ¬ dst = first := fun h => hfd h.symm
          simp [follow, nodeAnswer, hf, ht, this]
    | false =>
      by_cases hf : first = t.owner
      · exact ⟨1, by simp [follow, nodeAnswer, hf, ht, hne], by omega⟩
      · refine ⟨2, ?_, by omega⟩
        by_cases hfd : first = dst
        · simp [follow, nodeAnswer, hf, ht, hfd, hne]
        · have : ¬ dst = first := fun h => hfd h.symm
          simp [follow, nodeAnswer, hf, ht, this, hne]

end SamVerif.Upstream
