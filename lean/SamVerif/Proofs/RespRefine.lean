/-
C10: the chunked reader refines the plain stream.

Part 1 (generic): the decoder is written once over an abstract byte source `Src σ`; if two sources are
related by a relation that every primitive preserves (same result, related successor states, same
failures), the decoder returns the same value from related states, at every nesting budget.

Part 2: bufio.go's Reader over a connection that delivers its bytes in arbitrary non-empty chunks is
related in this way to the plain stream of the concatenated chunks: `peek`, `readByte`, `ReadSlice`,
`ReadBytes` and `ReadFull` are each characterised in terms of the remaining data.
-/
import SamVerif.Model.Resp
namespace SamVerif.Resp

section Generic
variable {σ₁ σ₂ : Type}

def OptSim {α : Type} (R : σ₁ → σ₂ → Prop) : Option (α × σ₁) → Option (α × σ₂) → Prop
  | some (x, a), some (y, b) => x = y ∧ R a b
  | none, none => True
  | _, _ => False

structure Sim (S₁ : Src σ₁) (S₂ : Src σ₂) (R : σ₁ → σ₂ → Prop) : Prop where
  peek : ∀ a b, R a b → OptSim R (S₁.peek a) (S₂.peek b)
  readByte : ∀ a b, R a b → OptSim R (S₁.readByte a) (S₂.readByte b)
  readSlice : ∀ a b, R a b → OptSim R (S₁.readSlice a) (S₂.readSlice b)
  readBytes : ∀ a b, R a b → OptSim R (S₁.readBytes a) (S₂.readBytes b)
  readFull : ∀ n, 0 < n → ∀ a b, R a b → OptSim R (S₁.readFull n a) (S₂.readFull n b)

theorem bind_sim {α β : Type} {R : σ₁ → σ₂ → Prop} (x : Option (α × σ₁)) (y : Option (α × σ₂))
    (f : α × σ₁ → Option (β × σ₁)) (g : α × σ₂ → Option (β × σ₂))
    (hxy : OptSim R x y) (hfg : ∀ v a b, R a b → OptSim R (f (v, a)) (g (v, b))) :
    OptSim R (x.bind f) (y.bind g) := by
  cases x with
  | none => cases y with
    | none => exact trivial
    | some q => obtain ⟨_, _⟩ := q; exact hxy.elim
  | some p =>
    obtain ⟨v, a⟩ := p
    cases y with
    | none => exact hxy.elim
    | some q =>
      obtain ⟨w, b⟩ := q
      obtain ⟨rfl, hr⟩ := hxy
      exact hfg v a b hr

variable {S₁ : Src σ₁} {S₂ : Src σ₂} {R : σ₁ → σ₂ → Prop}

theorem pure_sim {α : Type} (v : α) (a : σ₁) (b : σ₂) (h : R a b) : OptSim R (some (v, a)) (some (v, b)) := ⟨rfl, h⟩

theorem decodeInt_sim (h : Sim S₁ S₂ R) (a : σ₁) (b : σ₂) (hr : R a b) :
    OptSim R (decodeInt S₁ a) (decodeInt S₂ b) := by
  unfold decodeInt
  apply bind_sim _ _ _ _ (h.readSlice a b hr)
  intro line a' b' hr'
  simp only []
  cases stripCRLF line with
  | none => exact trivial
  | some body =>
    simp only [Option.bind_eq_bind, Option.bind_some, Option.bind]
    cases parseInt64 body with
    | none => exact trivial
    | some n => exact pure_sim _ _ _ hr'


theorem decodeText_sim (h : Sim S₁ S₂ R) (a : σ₁) (b : σ₂) (hr : R a b) :
    OptSim R (decodeText S₁ a) (decodeText S₂ b) := by
  unfold decodeText
  apply bind_sim _ _ _ _ (h.readBytes a b hr)
  intro line a' b' hr'
  simp only []
  cases stripCRLF line with
  | none => exact trivial
  | some body => exact pure_sim _ _ _ hr'

theorem decodeBulk_sim (h : Sim S₁ S₂ R) (a : σ₁) (b : σ₂) (hr : R a b) :
    OptSim R (decodeBulk S₁ a) (decodeBulk S₂ b) := by
  unfold decodeBulk
  apply bind_sim _ _ _ _ (decodeInt_sim h a b hr)
  intro n a' b' hr'
  simp only []
  by_cases h1 : n < -1
  · simp only [h1, if_true]; exact trivial
  · simp only [h1, if_false]
    by_cases h2 : n > maxBulkStringLen
    · simp only [h2, if_true]; exact trivial
    · simp only [h2, if_false]
      by_cases h3 : (n == -1) = true
      · simp only [h3, if_true]; exact pure_sim _ _ _ hr'
      · simp only [h3, Bool.false_eq_true, if_false]
        apply bind_sim _ _ _ _ (h.readFull (n.toNat + 2) (by omega) a' b' hr')
        intro bs a2 b2 hr2
        simp only []
        split
        · exact trivial
        · exact pure_sim _ _ _ hr2

theorem decodeN_sim (dec₁ : σ₁ → Option (Resp × σ₁)) (dec₂ : σ₂ → Option (Resp × σ₂))
    (hd : ∀ a b, R a b → OptSim R (dec₁ a) (dec₂ b)) :
    ∀ (k : Nat) (a : σ₁) (b : σ₂), R a b → OptSim R (decodeN dec₁ k a) (decodeN dec₂ k b) := by
  intro k
  induction k with
  | zero => intro a b hr; exact pure_sim _ _ _ hr
  | succ k ih =>
    intro a b hr
    simp only [decodeN]
    apply bind_sim _ _ _ _ (hd a b hr)
    intro v a' b' hr'
    simp only []
    apply bind_sim _ _ _ _ (ih a' b' hr')
    intro vs a2 b2 hr2
    exact pure_sim _ _ _ hr2

theorem decodeInline_sim (h : Sim S₁ S₂ R) (a : σ₁) (b : σ₂) (hr : R a b) :
    OptSim R (decodeInline S₁ a) (decodeInline S₂ b) := by
  unfold decodeInline
  apply bind_sim _ _ _ _ (decodeText_sim h a b hr)
  intro t a' b' hr'
  simp only []
  split
  · exact trivial
  · exact pure_sim _ _ _ hr'

theorem decode_sim (h : Sim S₁ S₂ R) : ∀ (fuel : Nat) (a : σ₁) (b : σ₂), R a b →
    OptSim R (decode S₁ fuel a) (decode S₂ fuel b) := by
  intro fuel
  induction fuel with
  | zero => intro a b _; exact trivial
  | succ fuel ih =>
    intro a b hr
    simp only [decode]
    apply bind_sim _ _ _ _ (h.peek a b hr)
    intro c a1 b1 hr1
    simp only []
    by_cases hc1 : (c == tColon) = true
    · simp only [hc1, if_true]
      apply bind_sim _ _ _ _ (h.readByte a1 b1 hr1)
      intro _ a2 b2 hr2
      apply bind_sim _ _ _ _ (decodeInt_sim h a2 b2 hr2)
      intro n a3 b3 hr3
      exact pure_sim _ _ _ hr3
    · simp only [hc1, Bool.false_eq_true, if_false]
      by_cases hc2 : (c == tPlus) = true
      · simp only [hc2, if_true]
        apply bind_sim _ _ _ _ (h.readByte a1 b1 hr1)
        intro _ a2 b2 hr2
        apply bind_sim _ _ _ _ (decodeText_sim h a2 b2 hr2)
        intro n a3 b3 hr3
        exact pure_sim _ _ _ hr3
      · simp only [hc2, Bool.false_eq_true, if_false]
        by_cases hc3 : (c == tMinus) = true
        · simp only [hc3, if_true]
          apply bind_sim _ _ _ _ (h.readByte a1 b1 hr1)
          intro _ a2 b2 hr2
          apply bind_sim _ _ _ _ (decodeText_sim h a2 b2 hr2)
          intro n a3 b3 hr3
          exact pure_sim _ _ _ hr3
        · simp only [hc3, Bool.false_eq_true, if_false]
          by_cases hc4 : (c == tDollar) = true
          · simp only [hc4, if_true]
            apply bind_sim _ _ _ _ (h.readByte a1 b1 hr1)
            intro _ a2 b2 hr2
            apply bind_sim _ _ _ _ (decodeBulk_sim h a2 b2 hr2)
            intro n a3 b3 hr3
            exact pure_sim _ _ _ hr3
          · simp only [hc4, Bool.false_eq_true, if_false]
            by_cases hc5 : (c == tStar) = true
            · simp only [hc5, if_true]
              apply bind_sim _ _ _ _ (h.readByte a1 b1 hr1)
              intro _ a2 b2 hr2
              apply bind_sim _ _ _ _ (decodeInt_sim h a2 b2 hr2)
              intro n a3 b3 hr3
              simp only []
              by_cases h1 : n < -1
              · simp only [h1, if_true]; exact trivial
              · simp only [h1, if_false]
                by_cases h2 : n > maxArrayLen
                · simp only [h2, if_true]; exact trivial
                · simp only [h2, if_false]
                  by_cases h3 : (n == -1) = true
                  · simp only [h3, if_true]; exact pure_sim _ _ _ hr3
                  · simp only [h3, Bool.false_eq_true, if_false]
                    apply bind_sim _ _ _ _ (decodeN_sim _ _ (ih) n.toNat a3 b3 hr3)
                    intro vs a4 b4 hr4
                    exact pure_sim _ _ _ hr4
            · simp only [hc5, Bool.false_eq_true, if_false]
              exact decodeInline_sim h a1 b1 hr1


end Generic

open Reader

def chunkBytes (r : Reader) : Nat := (r.chunks.map List.length).sum

structure Rel (r : Reader) (s : Stream) : Prop where
  noErr : r.err = false
  size : s.size = r.size
  data : s.data = r.win ++ r.chunks.flatten
  nonempty : ∀ c ∈ r.chunks, c ≠ []
  fits : r.win.length ≤ r.size
  pos : 0 < r.size

theorem fill_eof (r : Reader) (s : Stream) (h : Rel r s) (hc : r.chunks = []) :
    (fill r).err = true ∧ s.data = r.win := by
  constructor
  · simp [fill, h.noErr, hc]
  · rw [h.data, hc]; simp

theorem fill_cons (r : Reader) (c : Bytes) (cs : List Bytes) (he : r.err = false) (hc : r.chunks = c :: cs) :
    fill r = { r with win := r.win ++ c.take (r.size - r.win.length),
                      chunks := if (c.drop (r.size - r.win.length)).isEmpty then cs else c.drop (r.size - r.win.length) :: cs } := by
  simp [fill, he, hc]

theorem fill_rel (r : Reader) (s : Stream) (h : Rel r s) (c : Bytes) (cs : List Bytes) (hc : r.chunks = c :: cs) :
    Rel (fill r) s ∧ (r.win.length < r.size → r.win.length < (fill r).win.length) ∧
    chunkBytes (fill r) + (fill r).win.length = chunkBytes r + r.win.length ∧ (fill r).size = r.size := by
  have hne : c ≠ [] := h.nonempty c (by rw [hc]; exact List.mem_cons_self)
  have hlen : 0 < c.length := List.length_pos_iff.mpr hne
  rw [fill_cons r c cs h.noErr hc]
  have hfits := h.fits
  refine ⟨?_, ?_, ?_, rfl⟩
  · constructor
    · exact h.noErr
    · exact h.size
    · show s.data = (r.win ++ c.take (r.size - r.win.length)) ++
        (if (c.drop (r.size - r.win.length)).isEmpty then cs else c.drop (r.size - r.win.length) :: cs).flatten
      rw [h.data, hc]
      by_cases he : (c.drop (r.size - r.win.length)).isEmpty = true
      · simp only [he, if_true]
        have hd : c.drop (r.size - r.win.length) = [] := List.isEmpty_iff.mp he
        have ht : c.take (r.size - r.win.length) = c := by
          have := List.take_append_drop (r.size - r.win.length) c
          rw [hd, List.append_nil] at this
          exact this
        simp [ht]
      · simp only [he, Bool.false_eq_true, if_false, List.flatten_cons]
        rw [List.append_assoc, ← List.append_assoc (c.take _), List.take_append_drop]
    · intro x hx
      show x ≠ []
      have hx' : x ∈ (if (c.drop (r.size - r.win.length)).isEmpty then cs else c.drop (r.size - r.win.length) :: cs) := hx
      by_cases he : (c.drop (r.size - r.win.length)).isEmpty = true
      · simp only [he, if_true] at hx'
        exact h.nonempty x (by rw [hc]; exact List.mem_cons_of_mem _ hx')
      · simp only [he, Bool.false_eq_true, if_false] at hx'
        rcases List.mem_cons.mp hx' with rfl | hx''
        · intro hcontra; exact he (by simp [hcontra])
        · exact h.nonempty x (by rw [hc]; exact List.mem_cons_of_mem _ hx'')
    · show (r.win ++ c.take (r.size - r.win.length)).length ≤ r.size
      simp only [List.length_append, List.length_take]
      omega
    · exact h.pos
  · intro hroom
    show r.win.length < (r.win ++ c.take (r.size - r.win.length)).length
    simp only [List.length_append, List.length_take]
    omega
  · show ((if (c.drop (r.size - r.win.length)).isEmpty then cs else c.drop (r.size - r.win.length) :: cs).map List.length).sum
        + (r.win ++ c.take (r.size - r.win.length)).length = chunkBytes r + r.win.length
    unfold chunkBytes
    by_cases he : (c.drop (r.size - r.win.length)).isEmpty = true
    · have hd : c.drop (r.size - r.win.length) = [] := List.isEmpty_iff.mp he
      have hl : c.length ≤ r.size - r.win.length := by
        have := congrArg List.length hd; simp at this; omega
      simp only [he, if_true, hc, List.map_cons, List.sum_cons, List.length_append, List.length_take]
      omega
    · simp only [he, Bool.false_eq_true, if_false, hc, List.map_cons, List.sum_cons, List.length_append,
        List.length_take, List.length_drop]
      omega


/-- what `peek` does, in terms of the remaining data -/
theorem peek_spec (r : Reader) (s : Stream) (h : Rel r s) :
    match s.data with
    | [] => peek r = none
    | c :: _ => ∃ r1 ws, peek r = some (c, r1) ∧ Rel r1 s ∧ r1.win = c :: ws := by
  unfold peek
  simp only [h.noErr, Bool.false_eq_true, if_false]
  cases hw : r.win with
  | cons w ws =>
    simp only [List.isEmpty_cons, Bool.false_eq_true, if_false, h.noErr, hw]
    have hd : s.data = w :: (ws ++ r.chunks.flatten) := by rw [h.data, hw]; rfl
    rw [hd]
    exact ⟨r, ws, rfl, h, hw⟩
  | nil =>
    simp only [List.isEmpty_nil, if_true]
    cases hc : r.chunks with
    | nil =>
      have := fill_eof r s h hc
      have hd : s.data = [] := by rw [this.2, hw]
      rw [hd]
      simp only [this.1, if_true]
    | cons c cs =>
      have hf := fill_rel r s h c cs hc
      have hlen : 0 < (fill r).win.length := by
        have := hf.2.1 (by rw [hw]; exact h.pos)
        rw [hw] at this; simpa using this
      simp only [hf.1.noErr, Bool.false_eq_true, if_false]
      cases hw' : (fill r).win with
      | nil => rw [hw'] at hlen; simp at hlen
      | cons w ws =>
        have hd : s.data = w :: (ws ++ (fill r).chunks.flatten) := by rw [hf.1.data, hw']; rfl
        rw [hd]
        exact ⟨fill r, ws, rfl, hf.1, hw'⟩

theorem peek_sim (r : Reader) (s : Stream) (h : Rel r s) : OptSim Rel (peek r) (streamSrc.peek s) := by
  have hp := peek_spec r s h
  cases hd : s.data with
  | nil => rw [hd] at hp; simp only [streamSrc, hd, hp]; exact trivial
  | cons c rest =>
    rw [hd] at hp
    obtain ⟨r1, ws, h1, h2, _⟩ := hp
    simp only [streamSrc, hd, h1]
    exact ⟨rfl, h2⟩

theorem readByte_sim (r : Reader) (s : Stream) (h : Rel r s) : OptSim Rel (readByte r) (streamSrc.readByte s) := by
  have hp := peek_spec r s h
  unfold readByte
  cases hd : s.data with
  | nil => rw [hd] at hp; simp only [streamSrc, hd, hp]; exact trivial
  | cons c rest =>
    rw [hd] at hp
    obtain ⟨r1, ws, h1, h2, h3⟩ := hp
    simp only [streamSrc, hd, h1]
    refine ⟨rfl, ?_⟩
    have hrest : rest = ws ++ r1.chunks.flatten := by
      have := h2.data; rw [hd, h3] at this
      simp only [List.cons_append] at this
      injection this
    constructor
    · exact h2.noErr
    · exact h2.size
    · show rest = r1.win.drop 1 ++ r1.chunks.flatten
      rw [h3, hrest]; rfl
    · exact h2.nonempty
    · show (r1.win.drop 1).length ≤ r1.size
      have := h2.fits; rw [h3] at this ⊢; simp at this ⊢; omega
    · exact h2.pos


/-! ### lines -/

theorem splitLF_some_append (a b l r : Bytes) (h : splitLF a = some (l, r)) : splitLF (a ++ b) = some (l, r ++ b) := by
  induction a generalizing l r with
  | nil => simp [splitLF] at h
  | cons c a ih =>
    simp only [splitLF, List.cons_append] at h ⊢
    by_cases hc : (c == LF) = true
    · simp only [hc, if_true] at h ⊢
      injection h with h; injection h with h1 h2; subst h1; subst h2; rfl
    · simp only [hc, Bool.false_eq_true, if_false] at h ⊢
      cases hs : splitLF a with
      | none => simp [hs] at h
      | some p =>
        obtain ⟨l', r'⟩ := p
        simp only [hs] at h
        injection h with h; injection h with h1 h2; subst h1; subst h2
        simp [ih l' r' hs]

theorem splitLF_none_append (a b : Bytes) (h : splitLF a = none) :
    splitLF (a ++ b) = (splitLF b).map fun p => (a ++ p.1, p.2) := by
  induction a with
  | nil => cases hb : splitLF b <;> simp [hb]
  | cons c a ih =>
    simp only [splitLF, List.cons_append] at h ⊢
    by_cases hc : (c == LF) = true
    · simp [hc] at h
    · simp only [hc, Bool.false_eq_true, if_false] at h ⊢
      cases hs : splitLF a with
      | some p => simp [hs] at h
      | none =>
        rw [ih hs]
        cases hb : splitLF b with
        | none => simp
        | some p => simp

theorem splitLF_parts (a l r : Bytes) (h : splitLF a = some (l, r)) : l ++ r = a ∧ 0 < l.length := by
  induction a generalizing l r with
  | nil => simp [splitLF] at h
  | cons c a ih =>
    simp only [splitLF] at h
    by_cases hc : (c == LF) = true
    · simp only [hc, if_true] at h
      injection h with h; injection h with h1 h2; subst h1; subst h2; simp
    · simp only [hc, Bool.false_eq_true, if_false] at h
      cases hs : splitLF a with
      | none => simp [hs] at h
      | some p =>
        obtain ⟨l', r'⟩ := p
        simp only [hs] at h
        injection h with h; injection h with h1 h2; subst h1; subst h2
        have := ih l' r' hs
        simp [this.1]

/-- what one `ReadSlice` does, in terms of the remaining data -/
theorem readSliceAux_spec : ∀ (fuel : Nat) (r : Reader) (s : Stream), Rel r s → chunkBytes r < fuel →
    match readSliceAux fuel r with
    | .line l r' => ∃ rest, splitLF s.data = some (l, rest) ∧ l.length ≤ r.size ∧ Rel r' { s with data := rest }
    | .full frag r' => splitLF frag = none ∧ frag.length = r.size ∧
        Rel r' { s with data := s.data.drop frag.length } ∧ s.data.take frag.length = frag ∧
        (∀ l rest, splitLF s.data = some (l, rest) → r.size < l.length ∧ ∃ l', l = frag ++ l' ∧ splitLF (s.data.drop frag.length) = some (l', rest)) ∧
        (splitLF s.data = none → splitLF (s.data.drop frag.length) = none)
    | .fail => splitLF s.data = none := by
  intro fuel
  induction fuel with
  | zero => intro r s _ h; omega
  | succ fuel ih =>
    intro r s h hf
    unfold readSliceAux
    cases hsp : splitLF r.win with
    | some p =>
      obtain ⟨l, rest⟩ := p
      simp only []
      have hparts := splitLF_parts r.win l rest hsp
      refine ⟨rest ++ r.chunks.flatten, ?_, ?_, ?_⟩
      · rw [h.data]; exact splitLF_some_append _ _ _ _ hsp
      · have := congrArg List.length hparts.1
        simp at this; have := h.fits; omega
      · constructor
        · exact h.noErr
        · exact h.size
        · rfl
        · exact h.nonempty
        · show rest.length ≤ r.size
          have := congrArg List.length hparts.1
          simp at this; have := h.fits; omega
        · exact h.pos
    | none =>
      simp only []
      by_cases hfull : r.win.length ≥ r.size
      · simp only [hfull, if_true]
        have hlen : r.win.length = r.size := by have := h.fits; omega
        have hdrop : s.data.drop r.win.length = r.chunks.flatten := by rw [h.data]; simp
        refine ⟨hsp, hlen, ?_, ?_, ?_, ?_⟩
        · constructor
          · exact h.noErr
          · exact h.size
          · show s.data.drop r.win.length = [] ++ r.chunks.flatten
            rw [hdrop]; rfl
          · exact h.nonempty
          · show ([] : Bytes).length ≤ r.size
            simp
          · exact h.pos
        · rw [h.data]; simp
        · intro l rest hl
          rw [h.data, splitLF_none_append _ _ hsp] at hl
          cases hb : splitLF r.chunks.flatten with
          | none => simp [hb] at hl
          | some p =>
            obtain ⟨l', rest'⟩ := p
            simp only [hb, Option.map_some] at hl
            injection hl with hl; injection hl with h1 h2
            have hp := splitLF_parts _ _ _ hb
            refine ⟨?_, l', h1.symm, ?_⟩
            · rw [← h1]; simp; omega
            · rw [hdrop, hb, h2]
        · intro hn
          rw [hdrop]
          rw [h.data, splitLF_none_append _ _ hsp] at hn
          cases hb : splitLF r.chunks.flatten with
          | none => rfl
          | some p => simp [hb] at hn
      · simp only [hfull, if_false]
        cases hc : r.chunks with
        | nil =>
          have he := fill_eof r s h hc
          simp only [he.1, if_true]
          rw [he.2]; exact hsp
        | cons c cs =>
          have hfr := fill_rel r s h c cs hc
          simp only [hfr.1.noErr, Bool.false_eq_true, if_false]
          have hgrow := hfr.2.1 (by omega)
          have hcb : chunkBytes (fill r) < fuel := by have := hfr.2.2.1; omega
          have := ih (fill r) s hfr.1 hcb
          rw [hfr.2.2.2] at this
          exact this


theorem length_flatten (l : List Bytes) : l.flatten.length = (l.map List.length).sum := by
  induction l with
  | nil => rfl
  | cons c cs ih => simp [ih]

theorem rel_remaining (r : Reader) (s : Stream) (h : Rel r s) : remaining r = s.data.length := by
  unfold remaining
  rw [h.data, List.length_append, length_flatten]

theorem readSlice'_eq (r : Reader) (s : Stream) (h : Rel r s) : readSlice' r = readSliceAux (remaining r + 2) r := by
  simp [readSlice', h.noErr]

theorem chunkBytes_lt (r : Reader) : chunkBytes r < remaining r + 2 := by
  unfold remaining chunkBytes; omega

theorem readSlice_sim (r : Reader) (s : Stream) (h : Rel r s) : OptSim Rel (readSlice r) (streamSrc.readSlice s) := by
  unfold readSlice
  rw [readSlice'_eq r s h]
  have hs := readSliceAux_spec (remaining r + 2) r s h (chunkBytes_lt r)
  cases hr : readSliceAux (remaining r + 2) r with
  | line l r' =>
    rw [hr] at hs
    obtain ⟨rest, h1, h2, h3⟩ := hs
    have hle : l.length ≤ s.size := by rw [h.size]; exact h2
    simp only [streamSrc, h1, hle, if_true]
    exact ⟨rfl, h3⟩
  | full frag r' =>
    rw [hr] at hs
    simp only [streamSrc]
    cases hsp : splitLF s.data with
    | none => exact trivial
    | some p =>
      obtain ⟨l, rest⟩ := p
      have := (hs.2.2.2.2.1 l rest hsp).1
      have hnot : ¬ l.length ≤ s.size := by rw [h.size]; omega
      simp only [hnot, if_false]
      exact trivial
  | fail =>
    rw [hr] at hs
    simp only [streamSrc, hs]
    exact trivial

/-- what `ReadBytes` does with what it has accumulated so far -/
theorem readBytesAux_spec : ∀ (fuel : Nat) (acc : Bytes) (r : Reader) (s : Stream), Rel r s → s.data.length < fuel →
    match splitLF s.data with
    | some (l, rest) =>
      if (acc ++ l).length ≤ maxLineLen then ∃ r', readBytesAux fuel acc r = some (acc ++ l, r') ∧ Rel r' { s with data := rest }
      else readBytesAux fuel acc r = none
    | none => readBytesAux fuel acc r = none := by
  intro fuel
  induction fuel with
  | zero => intro acc r s _ h; omega
  | succ fuel ih =>
    intro acc r s h hf
    unfold readBytesAux
    rw [readSlice'_eq r s h]
    have hs := readSliceAux_spec (remaining r + 2) r s h (chunkBytes_lt r)
    cases hr : readSliceAux (remaining r + 2) r with
    | line l r' =>
      rw [hr] at hs
      obtain ⟨rest, h1, h2, h3⟩ := hs
      simp only [h1]
      by_cases hle : (acc ++ l).length ≤ maxLineLen
      · have : ¬ (acc ++ l).length > maxLineLen := by omega
        simp only [hle, if_true, this, if_false]
        exact ⟨r', rfl, h3⟩
      · have : (acc ++ l).length > maxLineLen := by omega
        simp only [hle, if_false, this, if_true]
    | fail =>
      rw [hr] at hs
      simp only [hs]
    | full frag r' =>
      rw [hr] at hs
      obtain ⟨hnolf, hlen, hrel, htake, hsome, hnone⟩ := hs
      simp only []
      have hfpos : 0 < frag.length := by rw [hlen]; exact h.pos
      by_cases hover : (acc ++ frag).length > maxLineLen
      · simp only [hover, if_true]
        cases hsp : splitLF s.data with
        | none => trivial
        | some p =>
          obtain ⟨l, rest⟩ := p
          obtain ⟨_, l', hl, _⟩ := hsome l rest hsp
          have : ¬ (acc ++ l).length ≤ maxLineLen := by
            rw [hl]; simp only [List.length_append] at hover ⊢; omega
          simp only [this, if_false]
      · simp only [hover, if_false]
        have hfl : frag.length ≤ s.data.length := by
          have := congrArg List.length htake
          simp only [List.length_take] at this; omega
        have hdl : (s.data.drop frag.length).length < fuel := by
          simp only [List.length_drop]; omega
        have := ih (acc ++ frag) r' { s with data := s.data.drop frag.length } hrel hdl
        cases hsp : splitLF s.data with
        | none =>
          simp only [hnone hsp] at this
          exact this
        | some p =>
          obtain ⟨l, rest⟩ := p
          obtain ⟨_, l', hl, hd⟩ := hsome l rest hsp
          simp only [hd] at this
          subst hl
          simp only [← List.append_assoc]
          exact this

theorem readBytes_sim (r : Reader) (s : Stream) (h : Rel r s) : OptSim Rel (readBytes r) (streamSrc.readBytes s) := by
  unfold readBytes
  have hs := readBytesAux_spec (remaining r + 2) [] r s h (by rw [rel_remaining r s h]; omega)
  simp only [streamSrc]
  cases hsp : splitLF s.data with
  | none => rw [hsp] at hs; simp only [hs]; exact trivial
  | some p =>
    obtain ⟨l, rest⟩ := p
    rw [hsp] at hs
    simp only [List.nil_append] at hs
    by_cases hle : l.length ≤ maxLineLen
    · simp only [hle, if_true] at hs ⊢
      obtain ⟨r', h1, h2⟩ := hs
      rw [h1]
      exact ⟨rfl, h2⟩
    · simp only [hle, if_false] at hs ⊢
      rw [hs]
      exact trivial


/-! ### ReadFull -/

theorem take_min (l : Bytes) (n : Nat) : l.take n = l.take (min n l.length) := by
  by_cases h : n ≤ l.length
  · rw [Nat.min_eq_left h]
  · have hge : l.length ≤ n := by omega
    rw [Nat.min_eq_right hge, List.take_of_length_le hge, List.take_of_length_le (Nat.le_refl _)]

/-- taking from a non-empty window -/
theorem read_win (r : Reader) (s : Stream) (h : Rel r s) (n : Nat) (hn : 0 < n) (w : UInt8) (ws : Bytes)
    (hw : r.win = w :: ws) :
    let got := r.win.take n
    0 < got.length ∧ got.length ≤ n ∧ got = s.data.take got.length ∧
    Rel { r with win := r.win.drop n } { s with data := s.data.drop got.length } := by
  have hwl : 0 < r.win.length := by rw [hw]; simp
  have hgl : (r.win.take n).length = min n r.win.length := List.length_take
  refine ⟨by rw [hgl]; omega, by rw [hgl]; omega, ?_, ?_⟩
  · rw [h.data, hgl]
    rw [List.take_append_of_le_length (by omega)]
    exact take_min r.win n
  · constructor
    · exact h.noErr
    · exact h.size
    · show s.data.drop (r.win.take n).length = r.win.drop n ++ r.chunks.flatten
      rw [h.data, hgl]
      by_cases hle : n ≤ r.win.length
      · rw [Nat.min_eq_left hle, List.drop_append_of_le_length hle]
      · have hge : r.win.length ≤ n := by omega
        rw [Nat.min_eq_right hge, List.drop_append_of_le_length (Nat.le_refl _)]
        simp [List.drop_eq_nil_of_le hge]
    · exact h.nonempty
    · show (r.win.drop n).length ≤ r.size
      have := h.fits; simp only [List.length_drop]; omega
    · exact h.pos

/-- what one `Read(p)` with `len p = n > 0` does -/
theorem read_spec (r : Reader) (s : Stream) (h : Rel r s) (n : Nat) (hn : 0 < n) :
    match s.data with
    | [] => Reader.read n r = none
    | _ :: _ => ∃ got r', Reader.read n r = some (got, r') ∧ 0 < got.length ∧ got.length ≤ n ∧
        got = s.data.take got.length ∧ Rel r' { s with data := s.data.drop got.length } := by
  obtain ⟨sz, win, chunks, err⟩ := r
  have he : err = false := h.noErr
  subst he
  cases win with
  | cons w ws =>
    have hd : s.data = w :: (ws ++ chunks.flatten) := by rw [h.data]; rfl
    have := read_win _ s h n hn w ws rfl
    rw [hd]
    simp only [Reader.read, List.isEmpty_cons, Bool.false_eq_true, if_false]
    rw [← hd]
    exact ⟨_, _, rfl, this.1, this.2.1, this.2.2.1, this.2.2.2⟩
  | nil =>
    cases chunks with
    | nil =>
      have hd : s.data = [] := by rw [h.data]; rfl
      rw [hd]
      by_cases hbig : n ≥ sz
      · simp [Reader.read, hbig]
      · simp [Reader.read, hbig, fill]
    | cons c cs =>
      have hne : c ≠ [] := h.nonempty c List.mem_cons_self
      have hcl : 0 < c.length := List.length_pos_iff.mpr hne
      have hd : s.data = c ++ cs.flatten := by rw [h.data]; rfl
      obtain ⟨c0, ct, hc0⟩ : ∃ c0 ct, c = c0 :: ct := by
        cases c with
        | nil => exact absurd rfl hne
        | cons a b => exact ⟨a, b, rfl⟩
      have hd' : s.data = c0 :: (ct ++ cs.flatten) := by rw [hd, hc0]; rfl
      by_cases hbig : n ≥ sz
      · rw [hd']
        simp only [Reader.read, Bool.false_eq_true, if_false, List.isEmpty_nil, if_true, hbig]
        have hgl : (c.take n).length = min n c.length := List.length_take
        refine ⟨c.take n, _, rfl, by rw [hgl]; omega, by rw [hgl]; omega, ?_, ?_⟩
        · rw [← hd', hd, hgl, List.take_append_of_le_length (by omega)]
          exact take_min c n
        · constructor
          · rfl
          · exact h.size
          · show (c0 :: (ct ++ cs.flatten)).drop (c.take n).length =
              [] ++ (if (c.drop n).isEmpty then cs else c.drop n :: cs).flatten
            rw [← hd', hd, hgl]
            by_cases he : (c.drop n).isEmpty = true
            · have hdn : c.drop n = [] := List.isEmpty_iff.mp he
              have hle : c.length ≤ n := by
                have := congrArg List.length hdn; simp at this; omega
              simp only [he, if_true, List.nil_append]
              rw [Nat.min_eq_right hle, List.drop_append_of_le_length (Nat.le_refl _)]
              simp
            · simp only [he, Bool.false_eq_true, if_false, List.nil_append, List.flatten_cons]
              have hlt : n < c.length := by
                by_cases hx : n < c.length
                · exact hx
                · exfalso; apply he
                  have : c.drop n = [] := List.drop_eq_nil_of_le (by omega)
                  simp [this]
              rw [Nat.min_eq_left (by omega), List.drop_append_of_le_length (by omega)]
          · intro x hx
            have hx' : x ∈ (if (c.drop n).isEmpty then cs else c.drop n :: cs) := hx
            by_cases he : (c.drop n).isEmpty = true
            · simp only [he, if_true] at hx'
              exact h.nonempty x (List.mem_cons_of_mem _ hx')
            · simp only [he, Bool.false_eq_true, if_false] at hx'
              rcases List.mem_cons.mp hx' with rfl | hx''
              · intro hcontra; exact he (by simp [hcontra])
              · exact h.nonempty x (List.mem_cons_of_mem _ hx'')
          · show ([] : Bytes).length ≤ sz
            simp
          · exact h.pos
      · have hfr := fill_rel _ s h c cs rfl
        have hlen : 0 < (fill ⟨sz, [], c :: cs, false⟩).win.length := by
          have := hfr.2.1 h.pos
          simpa using this
        obtain ⟨w, ws, hw1⟩ : ∃ w ws, (fill ⟨sz, [], c :: cs, false⟩).win = w :: ws := by
          cases hx : (fill ⟨sz, [], c :: cs, false⟩).win with
          | nil => rw [hx] at hlen; simp at hlen
          | cons a b => exact ⟨a, b, rfl⟩
        have := read_win (fill ⟨sz, [], c :: cs, false⟩) s hfr.1 n hn w ws hw1
        rw [hd']
        simp only [Reader.read, Bool.false_eq_true, if_false, List.isEmpty_nil, if_true, hbig, hfr.1.noErr]
        rw [← hd']
        exact ⟨_, _, rfl, this.1, this.2.1, this.2.2.1, this.2.2.2⟩


theorem take_take_drop (l : Bytes) (g need : Nat) (hg : g ≤ need) :
    l.take g ++ (l.drop g).take (need - g) = l.take need := by
  have : need = g + (need - g) := by omega
  rw [this, List.take_add]
  simp

theorem readFullAux_spec : ∀ (fuel need : Nat) (acc : Bytes) (r : Reader) (s : Stream), Rel r s → need < fuel →
    if need ≤ s.data.length then
      ∃ r', readFullAux fuel need acc r = some (acc ++ s.data.take need, r') ∧ Rel r' { s with data := s.data.drop need }
    else readFullAux fuel need acc r = none := by
  intro fuel
  induction fuel with
  | zero => intro need acc r s _ h; omega
  | succ fuel ih =>
    intro need acc r s h hf
    unfold readFullAux
    by_cases h0 : need = 0
    · subst h0
      simp only [Nat.zero_le, if_true, List.take_zero, List.append_nil, List.drop_zero]
      exact ⟨r, rfl, h⟩
    · simp only [h0, if_false]
      have hpos : 0 < need := by omega
      have hsp := read_spec r s h need hpos
      cases hd : s.data with
      | nil =>
        rw [hd] at hsp
        have : ¬ need ≤ ([] : Bytes).length := by simp; omega
        simp only [this, if_false, hsp]
      | cons d ds =>
        rw [hd] at hsp
        obtain ⟨got, r', hread, hg1, hg2, hgt, hrel⟩ := hsp
        rw [← hd] at hgt hrel ⊢
        simp only [hread]
        have hgl : got.length ≤ s.data.length := by
          have := congrArg List.length hgt
          simp only [List.length_take] at this; omega
        have := ih (need - got.length) (acc ++ got) r' { s with data := s.data.drop got.length } hrel (by omega)
        simp only [List.length_drop] at this
        by_cases hle : need ≤ s.data.length
        · have hle' : need - got.length ≤ s.data.length - got.length := by omega
          simp only [hle, hle', if_true] at this ⊢
          obtain ⟨r'', h1, h2⟩ := this
          refine ⟨r'', ?_, ?_⟩
          · rw [h1, List.append_assoc]
            have hcat : got ++ (s.data.drop got.length).take (need - got.length) = s.data.take need := by
              have := take_take_drop s.data got.length need hg2
              rw [← hgt] at this
              exact this
            rw [hcat]
          · have hdd : (s.data.drop got.length).drop (need - got.length) = s.data.drop need := by
              rw [List.drop_drop]; congr 1; omega
            rw [← hdd]; exact h2
        · have hle' : ¬ need - got.length ≤ s.data.length - got.length := by omega
          simp only [hle, hle', if_false] at this ⊢
          exact this

theorem readFull_sim (n : Nat) (hn : 0 < n) (r : Reader) (s : Stream) (h : Rel r s) :
    OptSim Rel (readFull n r) (streamSrc.readFull n s) := by
  unfold readFull
  have hn0 : ¬ n = 0 := by omega
  simp only [h.noErr, hn0, Bool.false_eq_true, decide_false, Bool.or_self, if_false]
  have hs := readFullAux_spec (n + 1) n [] r s h (by omega)
  simp only [streamSrc]
  by_cases hle : n ≤ s.data.length
  · simp only [hle, if_true] at hs ⊢
    obtain ⟨r', h1, h2⟩ := hs
    rw [h1]
    exact ⟨by simp, h2⟩
  · simp only [hle, if_false] at hs ⊢
    rw [hs]
    exact trivial


/-- every primitive of the chunked reader simulates the stream's -/
theorem reader_sim : Sim Reader.src streamSrc Rel where
  peek := fun a b h => peek_sim a b h
  readByte := fun a b h => readByte_sim a b h
  readSlice := fun a b h => readSlice_sim a b h
  readBytes := fun a b h => readBytes_sim a b h
  readFull := fun n hn a b h => readFull_sim n hn a b h

end SamVerif.Resp
