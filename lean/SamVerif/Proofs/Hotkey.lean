/-
C19 helper lemmas: multiplicities, sizes and shape of the frequency list under promote / admitKey / evict.
-/
import SamVerif.Model.Hotkey
namespace SamVerif.Proofs.Hotkey
open SamVerif.Hotkey

theorem keysOf_cons (n : Nat × List Nat) (ns : Nodes) : keysOf (n :: ns) = n.2 ++ keysOf ns := by
  simp [keysOf]

theorem count_filter_ne (ks : List Nat) (k j : Nat) :
    (ks.filter (· != k)).count j = if j = k then 0 else ks.count j := by
  induction ks with
  | nil => simp
  | cons x xs ih =>
    by_cases hx : x = k
    · subst hx
      by_cases hj : j = x
      · subst hj; simp [ih]
      · have : (x == j) = false := by simp; exact fun h => hj h.symm
        simp [ih, hj, List.count_cons, this]
    · have : (x != k) = true := by simp [hx]
      simp only [List.filter_cons, this, ↓reduceIte, List.count_cons, ih]
      by_cases hj : j = k
      · subst hj; simp [hx]
      · simp [hj]

/-- promoting a tracked key keeps every key's multiplicity -/
theorem count_promote (k : Nat) : ∀ (ns : Nodes) (j : Nat), (keysOf ns).count k = 1 →
    (keysOf (promote k ns)).count j = (keysOf ns).count j := by
  intro ns
  induction ns with
  | nil => intro j h; simp [keysOf] at h
  | cons n rest ih =>
    intro j h
    obtain ⟨f, ks⟩ := n
    simp only [promote]
    by_cases hk : ks.contains k
    · simp only [hk, ↓reduceIte]
      have hkm : k ∈ ks := by simpa using hk
      have hcnt : ks.count k = 1 := by
        rw [keysOf_cons, List.count_append] at h
        have : 0 < ks.count k := List.count_pos_iff.mpr hkm
        simp only at h; omega
      have hrest : (keysOf rest).count k = 0 := by
        rw [keysOf_cons, List.count_append] at h
        simp only at h; omega
      have key : ∀ (rest' : Nodes), (keysOf rest').count j = (keysOf rest).count j + (if j = k then 1 else 0) →
          (keysOf (if (ks.filter (· != k)).isEmpty then rest' else (f, ks.filter (· != k)) :: rest')).count j
            = (keysOf ((f, ks) :: rest)).count j := by
        intro rest' hr
        have hfil := count_filter_ne ks k j
        by_cases he : (ks.filter (· != k)).isEmpty
        · have he' : ks.filter (· != k) = [] := by simpa using he
          rw [he'] at hfil
          simp only [he, ↓reduceIte, keysOf_cons, List.count_append, hr]
          by_cases hj : j = k
          · subst hj; simp at hfil ⊢; omega
          · simp [hj] at hfil ⊢; omega
        · simp only [he, Bool.false_eq_true, ↓reduceIte, keysOf_cons, List.count_append, hr, hfil]
          by_cases hj : j = k
          · subst hj; simp; omega
          · simp [hj]
      apply key
      cases rest with
      | nil =>
        by_cases hj : j = k
        · subst hj; simp [keysOf]
        · have : (k == j) = false := by simp; exact fun h => hj h.symm
          simp [keysOf, hj, List.count_cons, this]
      | cons m more =>
        obtain ⟨g, gs⟩ := m
        by_cases hg : g = f + 1
        · simp only [hg, ↓reduceIte, keysOf_cons, List.count_append]
          by_cases hj : j = k
          · subst hj; simp; omega
          · have : (k == j) = false := by simp; exact fun h => hj h.symm
            simp [hj, List.count_cons, this]
        · simp only [hg, ↓reduceIte, keysOf_cons, List.count_append]
          by_cases hj : j = k
          · subst hj; simp; omega
          · have : (k == j) = false := by simp; exact fun h => hj h.symm
            simp [hj, List.count_cons, this]
    · simp only [hk, Bool.false_eq_true, ↓reduceIte, keysOf_cons, List.count_append]
      have hkm : k ∉ ks := by simpa using hk
      have : ks.count k = 0 := List.count_eq_zero.mpr hkm
      rw [keysOf_cons, List.count_append] at h
      simp only at h
      rw [ih j (by omega)]


theorem count_admitKey (k j : Nat) (ns : Nodes) :
    (keysOf (admitKey k ns)).count j = (keysOf ns).count j + (if j = k then 1 else 0) := by
  have hkj : j ≠ k → (k == j) = false := fun h => by simp; exact fun e => h e.symm
  unfold admitKey
  split
  · simp only [keysOf_cons, List.count_append]
    by_cases hj : j = k
    · subst hj; simp; omega
    · simp [hj, List.count_cons, hkj hj]
  · simp only [keysOf_cons, List.count_append]
    by_cases hj : j = k
    · subst hj; simp; omega
    · simp [hj, List.count_cons, hkj hj]

theorem length_admitKey (k : Nat) (ns : Nodes) : size (admitKey k ns) = size ns + 1 := by
  unfold admitKey size
  split <;> simp [keysOf_cons] <;> omega

/-- eviction removes exactly one occurrence of one key: the oldest key of the first node -/
theorem count_evict (ns ns' : Nodes) (h : evict ns = some ns') :
    ∃ f v vs rest, ns = (f, v :: vs) :: rest ∧
      ∀ j, (keysOf ns').count j + (if j = v then 1 else 0) = (keysOf ns).count j := by
  unfold evict at h
  split at h
  · simp at h
  · simp at h
  · rename_i f v vs rest
    refine ⟨f, v, vs, rest, rfl, ?_⟩
    intro j
    have hvj : j ≠ v → (v == j) = false := fun hh => by simp; exact fun e => hh e.symm
    simp only [Option.some.injEq] at h
    subst h
    by_cases he : vs.isEmpty
    · have : vs = [] := by simpa using he
      subst this
      by_cases hj : j = v
      · subst hj; simp [keysOf_cons]
      · simp [keysOf_cons, hj, List.count_cons, hvj hj]
    · by_cases hj : j = v
      · subst hj; simp [he, keysOf_cons, List.count_append]
      · simp [he, keysOf_cons, List.count_append, hj, List.count_cons, hvj hj]

theorem length_evict (ns ns' : Nodes) (h : evict ns = some ns') : size ns' + 1 = size ns := by
  unfold evict at h
  split at h
  · simp at h
  · simp at h
  · rename_i f v vs rest
    simp only [Option.some.injEq] at h
    subst h
    by_cases he : vs.isEmpty
    · have : vs = [] := by simpa using he
      subst this
      simp [size, keysOf_cons]
    · simp [he, size, keysOf_cons]

theorem length_filter_ne (ks : List Nat) (k : Nat) :
    (ks.filter (· != k)).length + ks.count k = ks.length := by
  induction ks with
  | nil => simp
  | cons x xs ih =>
    by_cases hx : x = k
    · subst hx; simp; omega
    · have : (x != k) = true := by simp [hx]
      have h2 : (x == k) = false := by simp [hx]
      simp [List.filter_cons, this, List.count_cons, h2]; omega

theorem length_promote (k : Nat) : ∀ (ns : Nodes), (keysOf ns).count k = 1 →
    size (promote k ns) = size ns := by
  intro ns
  induction ns with
  | nil => intro h; simp [keysOf] at h
  | cons n rest ih =>
    intro h
    obtain ⟨f, ks⟩ := n
    simp only [promote]
    by_cases hk : ks.contains k
    · simp only [hk, ↓reduceIte]
      have hkm : k ∈ ks := by simpa using hk
      have hcnt : ks.count k = 1 := by
        rw [keysOf_cons, List.count_append] at h
        have : 0 < ks.count k := List.count_pos_iff.mpr hkm
        simp only at h; omega
      have hf := length_filter_ne ks k
      have key : ∀ (rest' : Nodes), size rest' = size rest + 1 →
          size (if (ks.filter (· != k)).isEmpty then rest' else (f, ks.filter (· != k)) :: rest')
            = size ((f, ks) :: rest) := by
        intro rest' hr
        by_cases he : (ks.filter (· != k)).isEmpty
        · have he' : ks.filter (· != k) = [] := by simpa using he
          rw [he'] at hf
          simp only [he, ↓reduceIte]
          simp only [size, keysOf_cons, List.length_append] at hr ⊢
          simp at hf; omega
        · simp only [he, Bool.false_eq_true, ↓reduceIte]
          simp only [size, keysOf_cons, List.length_append] at hr ⊢
          omega
      apply key
      cases rest with
      | nil => simp [size, keysOf]
      | cons m more =>
        obtain ⟨g, gs⟩ := m
        by_cases hg : g = f + 1
        · simp [hg, size, keysOf_cons]; omega
        · simp [hg, size, keysOf_cons]
    · simp only [hk, Bool.false_eq_true, ↓reduceIte]
      have hkm : k ∉ ks := by simpa using hk
      have : ks.count k = 0 := List.count_eq_zero.mpr hkm
      rw [keysOf_cons, List.count_append] at h
      simp only at h
      have := ih (by omega)
      simp only [size, keysOf_cons, List.length_append] at this ⊢
      omega


/-- shape invariant: no empty node, frequencies ≥ 1 and strictly ascending -/
def Shape (ns : Nodes) : Prop :=
  (∀ n ∈ ns, n.2 ≠ [] ∧ 1 ≤ n.1) ∧ ns.Pairwise (fun a b => a.1 < b.1)

theorem shape_nil : Shape [] := by simp [Shape]

theorem shape_tail {n : Nat × List Nat} {ns : Nodes} (h : Shape (n :: ns)) : Shape ns := by
  obtain ⟨h1, h2⟩ := h
  exact ⟨fun m hm => h1 m (by simp [hm]), (List.pairwise_cons.mp h2).2⟩

theorem shape_admitKey (k : Nat) (ns : Nodes) (h : Shape ns) : Shape (admitKey k ns) := by
  obtain ⟨h1, h2⟩ := h
  unfold admitKey
  split
  · rename_i ks rest
    refine ⟨?_, ?_⟩
    · intro n hn
      simp only [List.mem_cons] at hn
      rcases hn with hn | hn
      · subst hn; simp
      · exact h1 n (by simp [hn])
    · rw [List.pairwise_cons] at h2 ⊢
      exact ⟨h2.1, h2.2⟩
  · rename_i hne
    refine ⟨?_, ?_⟩
    · intro n hn
      simp only [List.mem_cons] at hn
      rcases hn with hn | hn
      · subst hn; simp
      · exact h1 n hn
    · rw [List.pairwise_cons]
      refine ⟨?_, h2⟩
      intro m hm
      have hm1 := (h1 m hm).2
      -- the head of ns has frequency ≠ 1, everything after it is larger
      cases ns with
      | nil => simp at hm
      | cons x xs =>
        have hx1 := (h1 x (by simp)).2
        have hxne : x.1 ≠ 1 := by
          intro e
          obtain ⟨xf, xk⟩ := x
          simp only at e
          subst e
          exact hne xk xs rfl
        simp only [List.mem_cons] at hm
        rcases hm with hm | hm
        · subst hm; simp only; omega
        · have := (List.pairwise_cons.mp h2).1 m hm
          simp only; omega

theorem shape_evict (ns ns' : Nodes) (h : Shape ns) (he : evict ns = some ns') : Shape ns' := by
  unfold evict at he
  split at he
  · simp at he
  · simp at he
  · rename_i f v vs rest
    simp only [Option.some.injEq] at he
    subst he
    by_cases hv : vs.isEmpty
    · simp only [hv, ↓reduceIte]; exact shape_tail h
    · simp only [hv, Bool.false_eq_true, ↓reduceIte]
      obtain ⟨h1, h2⟩ := h
      refine ⟨?_, ?_⟩
      · intro n hn
        simp only [List.mem_cons] at hn
        rcases hn with hn | hn
        · subst hn
          refine ⟨?_, (h1 (f, v :: vs) (by simp)).2⟩
          intro e; simp only at e; subst e; simp at hv
        · exact h1 n (by simp [hn])
      · rw [List.pairwise_cons] at h2 ⊢
        exact h2

theorem evict_some_of_shape (ns : Nodes) (h : Shape ns) (hne : ns ≠ []) : ∃ ns', evict ns = some ns' := by
  cases ns with
  | nil => exact absurd rfl hne
  | cons n rest =>
    obtain ⟨f, ks⟩ := n
    cases ks with
    | nil => exact absurd rfl (h.1 (f, []) (by simp)).1
    | cons v vs => exact ⟨_, rfl⟩

theorem shape_promote (k : Nat) : ∀ (ns : Nodes), Shape ns → Shape (promote k ns) := by
  intro ns
  induction ns with
  | nil => intro h; simpa [promote] using h
  | cons n rest ih =>
    intro h
    obtain ⟨f, ks⟩ := n
    have hrest := shape_tail h
    obtain ⟨h1, h2⟩ := h
    have hf1 := (h1 (f, ks) (by simp)).2
    have hgt : ∀ m ∈ rest, f < m.1 := (List.pairwise_cons.mp h2).1
    simp only [promote]
    by_cases hk : ks.contains k
    · simp only [hk, ↓reduceIte]
      -- the list after the current node, with k promoted into frequency f+1
      have hrest' : ∀ (rest' : Nodes), Shape rest' → (∀ m ∈ rest', f < m.1) →
          Shape (if (ks.filter (· != k)).isEmpty then rest' else (f, ks.filter (· != k)) :: rest') := by
        intro rest' hs hg
        by_cases he : (ks.filter (· != k)).isEmpty
        · simpa [he] using hs
        · simp only [he, Bool.false_eq_true, ↓reduceIte]
          refine ⟨?_, ?_⟩
          · intro n hn
            simp only [List.mem_cons] at hn
            rcases hn with hn | hn
            · subst hn
              refine ⟨?_, hf1⟩
              intro e; simp only at e; rw [e] at he; simp at he
            · exact hs.1 n hn
          · rw [List.pairwise_cons]; exact ⟨hg, hs.2⟩
      cases rest with
      | nil =>
        apply hrest'
        · exact ⟨by intro n hn; simp at hn; subst hn; simp, by simp⟩
        · intro m hm; simp at hm; subst hm; simp
      | cons m more =>
        obtain ⟨g, gs⟩ := m
        have hfg : f < g := hgt (g, gs) (by simp)
        have hmore : ∀ x ∈ more, g < x.1 := (List.pairwise_cons.mp hrest.2).1
        by_cases hg : g = f + 1
        · simp only [hg, ↓reduceIte]
          apply hrest'
          · refine ⟨?_, ?_⟩
            · intro n hn
              simp only [List.mem_cons] at hn
              rcases hn with hn | hn
              · subst hn; simp
              · exact hrest.1 n (by simp [hn])
            · rw [List.pairwise_cons]
              exact ⟨by intro x hx; have := hmore x hx; omega, (List.pairwise_cons.mp hrest.2).2⟩
          · intro x hx
            simp only [List.mem_cons] at hx
            rcases hx with hx | hx
            · subst hx; simp
            · have := hmore x hx; omega
        · simp only [hg, ↓reduceIte]
          apply hrest'
          · refine ⟨?_, ?_⟩
            · intro n hn
              simp only [List.mem_cons] at hn
              rcases hn with hn | hn | hn
              · subst hn; simp
              · subst hn; exact hrest.1 (g, gs) (by simp)
              · exact hrest.1 n (by simp [hn])
            · rw [List.pairwise_cons]
              refine ⟨?_, hrest.2⟩
              intro x hx
              simp only [List.mem_cons] at hx
              rcases hx with hx | hx
              · subst hx; simp only; omega
              · have := hmore x hx; simp only; omega
          · intro x hx
            simp only [List.mem_cons] at hx
            rcases hx with hx | hx | hx
            · subst hx; simp
            · subst hx; exact hfg
            · have := hmore x hx; omega
    · simp only [hk, Bool.false_eq_true, ↓reduceIte]
      have ihs := ih hrest
      refine ⟨?_, ?_⟩
      · intro n hn
        simp only [List.mem_cons] at hn
        rcases hn with hn | hn
        · subst hn; exact h1 (f, ks) (by simp)
        · exact ihs.1 n hn
      · rw [List.pairwise_cons]
        refine ⟨?_, ihs.2⟩
        -- every frequency in the promoted tail is still above f
        have : ∀ (l : Nodes), (∀ m ∈ l, f < m.1) → ∀ m ∈ promote k l, f < m.1 := by
          intro l
          induction l with
          | nil => intro _ m hm; simp [promote] at hm
          | cons a as iha =>
            intro hl m hm
            obtain ⟨af, aks⟩ := a
            have haf : f < af := hl (af, aks) (by simp)
            simp only [promote] at hm
            by_cases hc : aks.contains k
            · simp only [hc, ↓reduceIte] at hm
              have hcase : ∀ (rest' : Nodes), (∀ x ∈ rest', f < x.1) →
                  m ∈ (if (aks.filter (· != k)).isEmpty then rest' else (af, aks.filter (· != k)) :: rest') → f < m.1 := by
                intro rest' hr hm'
                by_cases he : (aks.filter (· != k)).isEmpty
                · simp only [he, ↓reduceIte] at hm'; exact hr m hm'
                · simp only [he, Bool.false_eq_true, ↓reduceIte, List.mem_cons] at hm'
                  rcases hm' with hm' | hm'
                  · subst hm'; exact haf
                  · exact hr m hm'
              cases as with
              | nil =>
                apply hcase _ _ hm
                intro x hx; simp at hx; subst hx; simp only; omega
              | cons b bs =>
                obtain ⟨bf, bks⟩ := b
                by_cases hb : bf = af + 1
                · simp only [hb, ↓reduceIte] at hm
                  apply hcase _ _ hm
                  intro x hx
                  simp only [List.mem_cons] at hx
                  rcases hx with hx | hx
                  · subst hx; simp only; omega
                  · exact hl x (by simp [hx])
                · simp only [hb, ↓reduceIte] at hm
                  apply hcase _ _ hm
                  intro x hx
                  simp only [List.mem_cons] at hx
                  rcases hx with hx | hx | hx
                  · subst hx; simp only; omega
                  · subst hx; exact hl (bf, bks) (by simp)
                  · exact hl x (by simp [hx])
            · simp only [hc, Bool.false_eq_true, ↓reduceIte, List.mem_cons] at hm
              rcases hm with hm | hm
              · subst hm; exact haf
              · exact iha (fun x hx => hl x (by simp [hx])) m hm
        exact this rest hgt

theorem lookup_cons (n : Nat × List Nat) (ns : Nodes) (j : Nat) :
    lookup (n :: ns) j = if n.2.contains j then some n.1 else lookup ns j := by
  unfold lookup
  simp only [List.find?_cons]
  split <;> simp_all

theorem contains_filter_ne (ks : List Nat) (k j : Nat) (h : j ≠ k) :
    (ks.filter (· != k)).contains j = ks.contains j := by
  induction ks with
  | nil => rfl
  | cons x xs ih =>
    by_cases hx : x = k
    · subst hx
      have : (x == j) = false := by simp; exact fun e => h e.symm
      simp [List.filter_cons, ih, List.contains_cons, this, h]
    · have : (x != k) = true := by simp [hx]
      simp only [List.filter_cons, this, ↓reduceIte, List.contains_cons, ih]

theorem not_contains_filter (ks : List Nat) (k : Nat) : (ks.filter (· != k)).contains k = false := by
  induction ks with
  | nil => rfl
  | cons x xs ih =>
    by_cases hx : x = k
    · subst hx; simp [List.filter_cons, ih]
    · have : (x != k) = true := by simp [hx]
      have h2 : (k == x) = false := by simp; exact fun e => hx e.symm
      simp only [List.filter_cons, this, ↓reduceIte, List.contains_cons, ih, h2, Bool.or_self]

/-- promoting `k` adds exactly one to its count -/
theorem lookup_promote_self (k : Nat) : ∀ (ns : Nodes) (f : Nat), lookup ns k = some f →
    lookup (promote k ns) k = some (f + 1) := by
  intro ns
  induction ns with
  | nil => intro f h; simp [lookup] at h
  | cons n rest ih =>
    intro f0 h
    obtain ⟨f, ks⟩ := n
    rw [lookup_cons] at h
    simp only [promote]
    by_cases hk : ks.contains k
    · simp only [hk, ↓reduceIte, Option.some.injEq] at h
      subst h
      simp only [hk, ↓reduceIte]
      have key : ∀ rest' : Nodes, lookup rest' k = some (f + 1) →
          lookup (if (ks.filter (· != k)).isEmpty then rest' else (f, ks.filter (· != k)) :: rest') k = some (f + 1) := by
        intro rest' hr
        by_cases he : (ks.filter (· != k)).isEmpty
        · simpa [he] using hr
        · simp only [he, Bool.false_eq_true, ↓reduceIte]
          rw [lookup_cons]; simp only [not_contains_filter, Bool.false_eq_true, ↓reduceIte]; exact hr
      apply key
      cases rest with
      | nil => simp [lookup_cons]
      | cons m more =>
        obtain ⟨g, gs⟩ := m
        by_cases hg : g = f + 1
        · simp [hg, lookup_cons]
        · simp [hg, lookup_cons]
    · simp only [hk, Bool.false_eq_true, ↓reduceIte] at h ⊢
      rw [lookup_cons]
      simp only [hk, Bool.false_eq_true, ↓reduceIte]
      exact ih f0 h

/-- promoting `k` leaves every other key's count unchanged -/
theorem lookup_promote_other (k j : Nat) (hj : j ≠ k) : ∀ (ns : Nodes),
    lookup (promote k ns) j = lookup ns j := by
  intro ns
  induction ns with
  | nil => simp [promote]
  | cons n rest ih =>
    obtain ⟨f, ks⟩ := n
    simp only [promote]
    have hkj : (k == j) = false := by simp; exact fun e => hj e.symm
    by_cases hk : ks.contains k
    · simp only [hk, ↓reduceIte]
      have key : ∀ rest' : Nodes, lookup rest' j = lookup rest j →
          lookup (if (ks.filter (· != k)).isEmpty then rest' else (f, ks.filter (· != k)) :: rest') j
            = lookup ((f, ks) :: rest) j := by
        intro rest' hr
        have hc := contains_filter_ne ks k j hj
        by_cases he : (ks.filter (· != k)).isEmpty
        · have he' : ks.filter (· != k) = [] := by simpa using he
          rw [he'] at hc
          simp only [he, ↓reduceIte]
          rw [lookup_cons, hr]
          have : ks.contains j = false := by simpa using hc.symm
          simp only [this, Bool.false_eq_true, ↓reduceIte]
        · simp only [he, Bool.false_eq_true, ↓reduceIte]
          rw [lookup_cons, lookup_cons, hr]; simp only [hc]
      apply key
      cases rest with
      | nil =>
        rw [lookup_cons]
        simp [hj]
      | cons m more =>
        obtain ⟨g, gs⟩ := m
        by_cases hg : g = f + 1
        · simp only [hg, ↓reduceIte, lookup_cons, List.contains_append, List.contains_cons, hkj]
          simp [hj]
        · simp only [hg, ↓reduceIte, lookup_cons, List.contains_cons, hkj]
          simp [hj]
    · simp only [hk, Bool.false_eq_true, ↓reduceIte]
      rw [lookup_cons, lookup_cons, ih]


end SamVerif.Proofs.Hotkey
