import SamVerif.Drive.Cluster
import SamVerif.Proofs.Upstream
/-! The executable reference semantics of the scripted-cluster runs (`Drive.Cluster`) against the proven
redirection model: in a calm cluster the reference's walk *is* `Model.Upstream.follow`. -/
namespace SamVerif.Drive.Cluster
open SamVerif.Upstream

/-- the state of one slot as the reference sees it -/
def truthOf (c : Cl) (s : Nat) : Truth :=
  { owner := c.owner s, target := (c.migr.find? (fun m => m.1 == s && m.2.1 == c.owner s)).map (·.2.2) }

/-- a cluster in which every node is reachable at the address the proxy knows and no node has a lagging view -/
def Calm (c : Cl) : Prop := (∀ n, c.up n = true) ∧ c.staleAddr = [] ∧ c.beliefs = []

/-- **The reference's redirection walk is the proven one.** In a calm cluster the executable
reference used by the differential runs of C03/C04/C07 follows redirections exactly as
`Model.Upstream.follow` does — the function `follow_finds_holder` is about: same executing node,
the hop count advanced by the same number. -/
theorem routeFrom_eq_follow (c : Cl) (hc : Calm c) (s : Nat) (k : Bytes) (present : Bool) :
    ∀ (fuel node : Nat) (asking : Bool) (hops : Nat) (via : Bool) (n r : Nat),
      follow (truthOf c s) (present && !c.movedKeys.contains k) fuel node asking = some (n, r) →
      routeFrom c s k present fuel node asking hops via = (some n, hops + r, decide (hops + r > 0)) := by
  obtain ⟨hup, hst, hbel⟩ := hc
  intro fuel
  induction fuel with
  | zero => intro node asking hops via n r h; simp [follow] at h
  | succ f ih =>
    intro node asking hops via n r h
    unfold routeFrom
    have hno : (!c.up node || (via && c.staleAddr.contains node)) = false := by simp [hup node, hst]
    simp only [hno, Bool.false_eq_true, if_false]
    simp only [follow] at h
    show (match nodeAnswer (truthOf c s) node (present && !c.movedKeys.contains k) asking with
      | .serve => (some node, hops, decide (hops > 0))
      | .ask dst => routeFrom c s k present f dst true (hops + 1) false
      | .moved m =>
        routeFrom c s k present f
          (match c.beliefs.find? (fun (b : Nat × Nat × Nat) => b.1 == node && b.2.1 == s) with | some b => b.2.2 | none => m) false (hops + 1) false) = _
    cases ha : nodeAnswer (truthOf c s) node (present && !c.movedKeys.contains k) asking with
    | serve =>
      simp only [ha] at h
      injection h with h; injection h with h1 h2; subst h1; subst h2
      simp
    | ask dst =>
      simp only [ha] at h
      cases hf : follow (truthOf c s) (present && !c.movedKeys.contains k) f dst true with
      | none => rw [hf] at h; cases h
      | some p =>
        rw [hf] at h
        simp only [Option.map_some] at h
        injection h with h; injection h with h1 h2
        have := ih dst true (hops + 1) false p.1 p.2 (by rw [hf])
        simp only [this]
        subst h1; subst h2
        simp [Nat.add_assoc, Nat.add_comm 1]
    | moved m =>
      simp only [ha] at h
      simp only [hbel, List.find?_nil]
      cases hf : follow (truthOf c s) (present && !c.movedKeys.contains k) f m false with
      | none => rw [hf] at h; cases h
      | some p =>
        rw [hf] at h
        simp only [Option.map_some] at h
        injection h with h; injection h with h1 h2
        have := ih m false (hops + 1) false p.1 p.2 (by rw [hf])
        simp only [this]
        subst h1; subst h2
        simp [Nat.add_assoc, Nat.add_comm 1]


theorem follow_succ (t : Truth) (p : Bool) (f node : Nat) (a : Bool) :
    follow t p (f + 1) node a =
      (match nodeAnswer t node p a with
       | .serve => some (node, 0)
       | .moved n => (follow t p f n false).map fun r => (r.1, r.2 + 1)
       | .ask n => (follow t p f n true).map fun r => (r.1, r.2 + 1)) := rfl

theorem follow_mono (t : Truth) (p : Bool) : ∀ (f node : Nat) (a : Bool) (x : Nat × Nat),
    follow t p f node a = some x → follow t p (f + 1) node a = some x := by
  intro f
  induction f with
  | zero => intro node a x h; simp [follow] at h
  | succ f ih =>
    intro node a x h
    rw [follow_succ] at h
    rw [follow_succ t p (f + 1)]
    cases ha : nodeAnswer t node p a with
    | serve => rw [ha] at h; exact h
    | moved m =>
      rw [ha] at h
      simp only at h ⊢
      cases hf : follow t p f m false with
      | none => rw [hf] at h; cases h
      | some y => rw [hf] at h; show Option.map _ (follow t p (f + 1) m false) = some x; rw [ih m false y hf]; exact h
    | ask m =>
      rw [ha] at h
      simp only at h ⊢
      cases hf : follow t p f m true with
      | none => rw [hf] at h; cases h
      | some y => rw [hf] at h; show Option.map _ (follow t p (f + 1) m true) = some x; rw [ih m true y hf]; exact h

theorem follow_mono_add (t : Truth) (p : Bool) (f node : Nat) (a : Bool) (x : Nat × Nat) (d : Nat)
    (h : follow t p f node a = some x) : follow t p (f + d) node a = some x := by
  induction d with
  | zero => exact h
  | succ d ih => exact follow_mono t p (f + d) node a x ih

/-- **What the reference predicts for a keyed command in a calm cluster is what the theorem of C04
says**: it is executed on the key's holder after at most two redirections. -/
theorem route_reaches_holder (c : Cl) (hc : Calm c) (k : Bytes) (present : Bool)
    (hdst : ∀ d, (truthOf c (slotOf k)).target = some d → d ≠ (truthOf c (slotOf k)).owner) :
    ∃ r, r ≤ 2 ∧ route c k present =
      (some (holder (truthOf c (slotOf k)) (present && !c.movedKeys.contains k)), r, decide (r > 0)) := by
  obtain ⟨r, hf, hr⟩ := follow_finds_holder (truthOf c (slotOf k)) (present && !c.movedKeys.contains k) (c.table (slotOf k)) hdst
  have h8 := follow_mono_add _ _ 3 _ _ _ 5 hf
  refine ⟨r, hr, ?_⟩
  unfold route
  have := routeFrom_eq_follow c hc (slotOf k) k present 8 (c.table (slotOf k)) false 0 true _ r h8
  simpa using this

end SamVerif.Drive.Cluster
