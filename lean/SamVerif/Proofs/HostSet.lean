/-
C15 helper lemmas: the consistency invariant of the host set is preserved by add / remove / mark.
-/
import SamVerif.Model.HostSet
namespace SamVerif.Proofs.HostSet
open SamVerif.HostSet

def Consistent (s : State) (o : Obj) : Prop :=
  ∀ a m, s.reg o.id = some (a, m) → a = o.addr ∧ m = o.main

structure Inv (s : State) : Prop where
  main : ∀ a i, s.hMain a = some i ↔ (s.all a = some i ∧ typOf s i = true ∧ s.flag i = true)
  backup : ∀ a i, s.hBackup a = some i ↔ (s.all a = some i ∧ typOf s i = false ∧ s.flag i = true)
  reg : ∀ a i, s.all a = some i → ∃ m, s.reg i = some (a, m)
  dom : ∀ a i, s.all a = some i → a ∈ s.dom

theorem inv_init : Inv init := by
  constructor <;> simp [init]

theorem ite_app {α β : Type} (c : Prop) [Decidable c] (f g : α → β) (a : α) :
    (if c then f else g) a = if c then f a else g a := by split <;> rfl

/-- closing tactic for the case analyses below -/
macro "hs_close" hw:ident ha:ident : tactic => `(tactic| (
  simp_all [upd]
  all_goals first
    | done
    | (intro e; subst e; simp_all; done)
    | (intro e; exact absurd ($hw _ e) $ha)
    | (intro e; have := $hw _ e; simp_all; done)
    | (intros; simp_all; done)))

theorem storedTier_none (s : State) (a : Nat) (ex : Option Nat) :
    storedTier s a ex = none ↔ (s.all a = none ∨ s.all a = ex) := by
  unfold storedTier
  cases h : s.all a with
  | none => simp
  | some old => by_cases he : some old = ex <;> simp [he]

theorem storedTier_some (s : State) (a : Nat) (ex : Option Nat) (b : Bool) :
    storedTier s a ex = some b ↔ ∃ old, s.all a = some old ∧ some old ≠ ex ∧ typOf s old = b := by
  unfold storedTier
  cases h : s.all a with
  | none => simp
  | some old =>
    by_cases he : some old = ex
    · simp only [he, ↓reduceIte, reduceCtorEq, false_iff, not_exists, not_and]
      intro x hx hne; exact absurd hx.symm hne
    · simp [he]

/-- core of the add step for one tier `b`, over an abstract healthy map `f` of that tier -/
theorem tier_add_core (s : State) (o : Obj) (b : Bool) (f : Nat → Option Nat)
    (hf : ∀ a i, f a = some i ↔ (s.all a = some i ∧ typOf s i = b ∧ s.flag i = true))
    (hr : ∀ a i, s.all a = some i → ∃ m, s.reg i = some (a, m)) (hc : Consistent s o) :
    ∀ a i,
      (if s.flag o.id = true ∧ o.main = b then
          upd (if storedTier s o.addr (some o.id) = some b then upd f o.addr none else f) o.addr (some o.id)
        else (if storedTier s o.addr (some o.id) = some b then upd f o.addr none else f)) a = some i ↔
      (upd s.all o.addr (some o.id) a = some i ∧ (if i = o.id then o.main else typOf s i) = b ∧ s.flag i = true) := by
  have hwhere : ∀ a, s.all a = some o.id → a = o.addr := by
    intro a ha
    obtain ⟨m, hm'⟩ := hr a o.id ha
    exact (hc a m hm').1
  have hmain_o : ∀ a m, s.reg o.id = some (a, m) → typOf s o.id = o.main := by
    intro a m h; unfold typOf; rw [h]; exact (hc a m h).2
  intro a i
  generalize hst : storedTier s o.addr (some o.id) = t
  by_cases ha : a = o.addr
  · subst ha
    have hbefore : (if t = some b then upd f o.addr none else f) o.addr = some i →
        s.all o.addr = some o.id ∧ i = o.id ∧ typOf s o.id = b ∧ s.flag o.id = true := by
      intro hh
      rcases t with _ | b'
      · simp only [reduceCtorEq, ↓reduceIte] at hh
        have h1 := (hf o.addr i).mp hh
        rcases (storedTier_none s o.addr (some o.id)).mp hst with hn | hn
        · rw [hn] at h1; simp at h1
        · rw [hn] at h1; simp only [Option.some.injEq] at h1
          exact ⟨hn, h1.1.symm, by rw [← h1.1] at h1; exact h1.2.1, by rw [← h1.1] at h1; exact h1.2.2⟩
      · by_cases hbb : b' = b
        · subst hbb; simp [upd] at hh
        · have : ¬ (some b' = some b) := by simpa using hbb
          simp only [this, ↓reduceIte] at hh
          obtain ⟨old, ho1, ho2, ho3⟩ := (storedTier_some s o.addr (some o.id) b').mp hst
          have h1 := (hf o.addr i).mp hh
          rw [ho1] at h1; simp only [Option.some.injEq] at h1
          rw [← h1.1] at h1; rw [ho3] at h1; exact absurd h1.2.1 hbb
    by_cases hfm : s.flag o.id = true ∧ o.main = b
    · simp only [hfm, and_self, ↓reduceIte, upd, Option.some.injEq]
      constructor
      · intro e; subst e; simp [hfm.1, hfm.2]
      · intro e; exact e.1
    · simp only [hfm, ↓reduceIte, upd, Option.some.injEq]
      constructor
      · intro hh
        obtain ⟨hall, h2, h3, h4⟩ := hbefore hh
        subst h2
        obtain ⟨m, hm'⟩ := hr o.addr o.id hall
        have := hmain_o _ _ hm'
        exact absurd ⟨h4, by rw [← this]; exact h3⟩ hfm
      · intro ⟨e1, e2, e3⟩
        subst e1
        simp only [↓reduceIte] at e2
        exact absurd ⟨e3, e2⟩ hfm
  · have h1 := hf a i
    simp only [ite_app, ite_self, upd, if_neg ha]
    by_cases hi : i = o.id
    · subst hi
      have hno : s.all a ≠ some o.id := fun e => ha (hwhere a e)
      have : f a ≠ some o.id := fun e => hno ((hf a o.id).mp e).1
      simp [hno, this]
    · simp only [if_neg hi]; exact h1

theorem typOf_addOneRepl (s : State) (o : Obj) (i : Nat) :
    typOf (addOneRepl s o) i = if i = o.id then o.main else typOf s i := by
  unfold typOf addOneRepl upd; by_cases hi : i = o.id <;> simp [hi]

theorem inv_addOneRepl (s : State) (o : Obj) (h : Inv s) (hc : Consistent s o) : Inv (addOneRepl s o) := by
  obtain ⟨hm, hb, hr, hd⟩ := h
  constructor
  · intro a i
    rw [typOf_addOneRepl]
    exact tier_add_core s o true s.hMain hm hr hc a i
  · intro a i
    rw [typOf_addOneRepl]
    exact tier_add_core s o false s.hBackup hb hr hc a i
  · intro a i hh
    simp only [addOneRepl, upd] at hh ⊢
    by_cases ha : a = o.addr
    · subst ha
      simp only [↓reduceIte, Option.some.injEq] at hh
      subst hh
      exact ⟨o.main, by simp⟩
    · simp only [if_neg ha] at hh
      obtain ⟨m, hm'⟩ := hr a i hh
      by_cases hi : i = o.id
      · subst hi; exact absurd (hc a m hm').1 ha
      · exact ⟨m, by simp [hi, hm']⟩
  · intro a i hh
    simp only [addOneRepl, upd] at hh ⊢
    by_cases ha : a = o.addr
    · subst ha
      by_cases hcn : o.addr ∈ s.dom
      · simp [hcn]
      · simp [hcn]
    · simp only [if_neg ha] at hh
      have := hd a i hh
      by_cases hcn : o.addr ∈ s.dom
      · simp [hcn, this]
      · simp [hcn, this]



theorem inv_addOneSeen (s : State) (o : Obj) (h : Inv s) (hc : Consistent s o) : Inv (addOneSeen s o) := by
  obtain ⟨hm, hb, hr, hd⟩ := h
  -- a stored object keeps its type: its registry entry, if any, already says what `o` says
  have htyp : ∀ a i, s.all a = some i → typOf (addOneSeen s o) i = typOf s i := by
    intro a i hai
    obtain ⟨m, hm'⟩ := hr a i hai
    unfold typOf addOneSeen upd
    by_cases hi : i = o.id
    · subst hi
      simp only [if_true, hm']
      exact ((hc a m hm').2).symm
    · simp [hi]
  constructor
  · intro a i
    show s.hMain a = some i ↔ s.all a = some i ∧ typOf (addOneSeen s o) i = true ∧ s.flag i = true
    constructor
    · intro hh
      have := (hm a i).mp hh
      exact ⟨this.1, by rw [htyp a i this.1]; exact this.2.1, this.2.2⟩
    · intro ⟨h1, h2, h3⟩
      exact (hm a i).mpr ⟨h1, by rw [← htyp a i h1]; exact h2, h3⟩
  · intro a i
    show s.hBackup a = some i ↔ s.all a = some i ∧ typOf (addOneSeen s o) i = false ∧ s.flag i = true
    constructor
    · intro hh
      have := (hb a i).mp hh
      exact ⟨this.1, by rw [htyp a i this.1]; exact this.2.1, this.2.2⟩
    · intro ⟨h1, h2, h3⟩
      exact (hb a i).mpr ⟨h1, by rw [← htyp a i h1]; exact h2, h3⟩
  · intro a i hai
    obtain ⟨m, hm'⟩ := hr a i hai
    by_cases hi : i = o.id
    · subst hi
      have := hc a m hm'
      exact ⟨o.main, by simp [addOneSeen, upd, this.1]⟩
    · exact ⟨m, by simp [addOneSeen, upd, hi, hm']⟩
  · exact hd

theorem inv_addOne (s : State) (o : Obj) (h : Inv s) (hc : Consistent s o) : Inv (addOne s o) := by
  unfold addOne
  split
  · exact inv_addOneSeen s o h hc
  · exact inv_addOneRepl s o h hc

theorem typOf_removeOne (s : State) (o : Obj) (i : Nat) :
    typOf (removeOne s o) i = if i = o.id then o.main else typOf s i := by
  unfold typOf removeOne upd; by_cases hi : i = o.id <;> simp [hi]

/-- core of the remove step for one tier -/
theorem tier_remove_core (s : State) (o : Obj) (b : Bool) (f : Nat → Option Nat)
    (hf : ∀ a i, f a = some i ↔ (s.all a = some i ∧ typOf s i = b ∧ s.flag i = true))
    (hr : ∀ a i, s.all a = some i → ∃ m, s.reg i = some (a, m)) (hc : Consistent s o) :
    ∀ a i,
      (if o.main = b then upd (if storedTier s o.addr none = some b then upd f o.addr none else f) o.addr none
        else (if storedTier s o.addr none = some b then upd f o.addr none else f)) a = some i ↔
      (upd s.all o.addr none a = some i ∧ (if i = o.id then o.main else typOf s i) = b ∧ s.flag i = true) := by
  have hwhere : ∀ a, s.all a = some o.id → a = o.addr := by
    intro a ha
    obtain ⟨m, hm'⟩ := hr a o.id ha
    exact (hc a m hm').1
  intro a i
  by_cases ha : a = o.addr
  · subst ha
    simp only [upd, ↓reduceIte, reduceCtorEq, false_and, iff_false]
    by_cases hom : o.main = b
    · simp [hom, upd]
    · simp only [hom, ↓reduceIte]
      by_cases hst : storedTier s o.addr none = some b
      · simp [hst, upd]
      · simp only [hst, ↓reduceIte]
        intro hh
        have h1 := (hf o.addr i).mp hh
        apply hst
        exact (storedTier_some s o.addr none b).mpr ⟨i, h1.1, by simp, h1.2.1⟩
  · have h1 := hf a i
    simp only [ite_app, ite_self, upd, if_neg ha]
    by_cases hi : i = o.id
    · subst hi
      have hno : s.all a ≠ some o.id := fun e => ha (hwhere a e)
      have : f a ≠ some o.id := fun e => hno ((hf a o.id).mp e).1
      simp [hno, this]
    · simp only [if_neg hi]; exact h1

theorem inv_removeOne (s : State) (o : Obj) (h : Inv s) (hc : Consistent s o) : Inv (removeOne s o) := by
  obtain ⟨hm, hb, hr, hd⟩ := h
  constructor
  · intro a i
    rw [typOf_removeOne]
    exact tier_remove_core s o true s.hMain hm hr hc a i
  · intro a i
    rw [typOf_removeOne]
    exact tier_remove_core s o false s.hBackup hb hr hc a i
  · intro a i hh
    simp only [removeOne, upd] at hh ⊢
    by_cases ha : a = o.addr
    · subst ha; simp at hh
    · simp only [if_neg ha] at hh
      obtain ⟨m, hm'⟩ := hr a i hh
      by_cases hi : i = o.id
      · subst hi; exact absurd (hc a m hm').1 ha
      · exact ⟨m, by simp [hi, hm']⟩
  · intro a i hh
    simp only [removeOne, upd] at hh ⊢
    by_cases ha : a = o.addr
    · subst ha; simp at hh
    · simp only [if_neg ha] at hh
      exact hd a i hh

/-- core of a health mark for one tier -/
theorem tier_mark_core (s : State) (o : Obj) (healthy b : Bool) (f : Nat → Option Nat)
    (hf : ∀ a i, f a = some i ↔ (s.all a = some i ∧ typOf s i = b ∧ s.flag i = true))
    (hr : ∀ a i, s.all a = some i → ∃ m, s.reg i = some (a, m)) (hc : Consistent s o) :
    ∀ a i,
      (if s.all o.addr = some o.id ∧ o.main = b then upd f o.addr (if healthy then some o.id else none) else f) a = some i ↔
      (s.all a = some i ∧ typOf s i = b ∧ upd s.flag o.id healthy i = true) := by
  have hwhere : ∀ a, s.all a = some o.id → a = o.addr := by
    intro a ha
    obtain ⟨m, hm'⟩ := hr a o.id ha
    exact (hc a m hm').1
  have hty : s.all o.addr = some o.id → typOf s o.id = o.main := by
    intro hmem
    obtain ⟨m, hm'⟩ := hr o.addr o.id hmem
    unfold typOf; rw [hm']; exact (hc _ _ hm').2
  intro a i
  by_cases hi : i = o.id
  · subst hi
    simp only [upd, ↓reduceIte]
    by_cases hmem : s.all o.addr = some o.id
    · have htyp := hty hmem
      by_cases hom : o.main = b
      · simp only [hmem, hom, and_self, ↓reduceIte, upd]
        by_cases ha : a = o.addr
        · subst ha
          simp only [↓reduceIte, hmem, true_and]
          rw [htyp]
          cases healthy <;> simp [hom]
        · simp only [if_neg ha]
          have hno : s.all a ≠ some o.id := fun e => ha (hwhere a e)
          have : f a ≠ some o.id := fun e => hno ((hf a o.id).mp e).1
          simp [hno, this]
      · have : ¬ (s.all o.addr = some o.id ∧ o.main = b) := fun e => hom e.2
        simp only [this, ↓reduceIte]
        have hne : typOf s o.id ≠ b := by rw [htyp]; exact hom
        constructor
        · intro hh; exact absurd ((hf a o.id).mp hh).2.1 hne
        · intro hh; exact absurd hh.2.1 hne
    · have : ¬ (s.all o.addr = some o.id ∧ o.main = b) := fun e => hmem e.1
      simp only [this, ↓reduceIte]
      have hno : s.all a ≠ some o.id := fun e => hmem (by have := hwhere a e; subst this; exact e)
      have : f a ≠ some o.id := fun e => hno ((hf a o.id).mp e).1
      simp [hno, this]
  · have hfl : upd s.flag o.id healthy i = s.flag i := by simp [upd, hi]
    rw [hfl]
    by_cases hcond : s.all o.addr = some o.id ∧ o.main = b
    · simp only [hcond, and_self, ↓reduceIte, upd]
      by_cases ha : a = o.addr
      · subst ha
        simp only [↓reduceIte, hcond.1, Option.some.injEq]
        have hne : ¬ (o.id = i) := fun e => hi e.symm
        cases healthy <;> simp [hne]
      · simp only [if_neg ha]; exact hf a i
    · simp only [hcond, ↓reduceIte]; exact hf a i

theorem inv_mark (s : State) (o : Obj) (healthy : Bool) (h : Inv s) (hc : Consistent s o) :
    Inv (mark s o healthy).1 := by
  unfold mark
  by_cases hfl : s.flag o.id = healthy
  · simpa [hfl] using h
  · simp only [hfl, ↓reduceIte]
    obtain ⟨hm, hb, hr, hd⟩ := h
    constructor
    · intro a i; exact tier_mark_core s o healthy true s.hMain hm hr hc a i
    · intro a i; exact tier_mark_core s o healthy false s.hBackup hb hr hc a i
    · exact hr
    · exact hd


/-! ### histories -/

/-- every object with a given id has the attributes `attr id` (objects are immutable) -/
def WF (attr : Nat → Nat × Bool) (o : Obj) : Prop := (o.addr, o.main) = attr o.id

def RegOk (attr : Nat → Nat × Bool) (s : State) : Prop := ∀ i x, s.reg i = some x → x = attr i

theorem consistent_of_wf (attr : Nat → Nat × Bool) (s : State) (o : Obj) (hw : WF attr o) (hr : RegOk attr s) :
    Consistent s o := by
  intro a m h
  have := hr o.id (a, m) h
  unfold WF at hw
  rw [← hw] at this
  simp only [Prod.mk.injEq] at this
  exact this

theorem regOk_addOne (attr : Nat → Nat × Bool) (s : State) (o : Obj) (hw : WF attr o) (hr : RegOk attr s) :
    RegOk attr (addOne s o) := by
  intro i x h
  have key : (upd s.reg o.id (some (o.addr, o.main))) i = some x → x = attr i := by
    intro h
    simp only [upd] at h
    by_cases hi : i = o.id
    · subst hi; simp only [↓reduceIte, Option.some.injEq] at h; rw [← h]; exact hw
    · simp only [if_neg hi] at h; exact hr i x h
  unfold addOne at h
  split at h
  · exact key h
  · exact key h

theorem regOk_removeOne (attr : Nat → Nat × Bool) (s : State) (o : Obj) (hw : WF attr o) (hr : RegOk attr s) :
    RegOk attr (removeOne s o) := by
  intro i x h
  simp only [removeOne, upd] at h
  by_cases hi : i = o.id
  · subst hi; simp only [↓reduceIte, Option.some.injEq] at h; rw [← h]; exact hw
  · simp only [if_neg hi] at h; exact hr i x h

theorem inv_add (attr : Nat → Nat × Bool) : ∀ (os : List Obj) (s : State), (∀ o ∈ os, WF attr o) → Inv s → RegOk attr s →
    Inv (add s os) ∧ RegOk attr (add s os) := by
  intro os
  induction os with
  | nil => intro s _ h hr; exact ⟨h, hr⟩
  | cons o rest ih =>
    intro s hw h hr
    have hwo := hw o (by simp)
    exact ih (addOne s o) (fun x hx => hw x (by simp [hx]))
      (inv_addOne s o h (consistent_of_wf attr s o hwo hr)) (regOk_addOne attr s o hwo hr)

theorem inv_remove (attr : Nat → Nat × Bool) : ∀ (os : List Obj) (s : State), (∀ o ∈ os, WF attr o) → Inv s → RegOk attr s →
    Inv (remove s os) ∧ RegOk attr (remove s os) := by
  intro os
  induction os with
  | nil => intro s _ h hr; exact ⟨h, hr⟩
  | cons o rest ih =>
    intro s hw h hr
    have hwo := hw o (by simp)
    exact ih (removeOne s o) (fun x hx => hw x (by simp [hx]))
      (inv_removeOne s o h (consistent_of_wf attr s o hwo hr)) (regOk_removeOne attr s o hwo hr)

/-- the stored objects are well-formed for the registry's own attribute function -/
theorem stored_wf (attr : Nat → Nat × Bool) (s : State) (h : Inv s) (hr : RegOk attr s) :
    ∀ o ∈ stored s, WF attr o := by
  intro o ho
  simp only [stored, List.mem_filterMap] at ho
  obtain ⟨a, _, hao⟩ := ho
  cases hall : s.all a with
  | none => simp [hall] at hao
  | some i =>
    simp only [hall, Option.some.injEq] at hao
    subst hao
    obtain ⟨m, hm⟩ := h.reg a i hall
    have := hr i (a, m) hm
    unfold WF typOf
    simp only [hm]
    exact this

theorem inv_replaceAll (attr : Nat → Nat × Bool) (os : List Obj) (s : State) (hw : ∀ o ∈ os, WF attr o)
    (h : Inv s) (hr : RegOk attr s) : Inv (replaceAll s os) ∧ RegOk attr (replaceAll s os) := by
  unfold replaceAll
  have h1 := inv_remove attr (stored s) s (stored_wf attr s h hr) h hr
  exact inv_add attr os _ hw h1.1 h1.2

/-! ### what `Healthy()` returns under the invariant -/

theorem filterMap_congr' {α β : Type} (f g : α → Option β) :
    ∀ (l : List α), (∀ a ∈ l, f a = g a) → l.filterMap f = l.filterMap g := by
  intro l
  induction l with
  | nil => intro _; rfl
  | cons x xs ih =>
    intro h
    simp only [List.filterMap_cons]
    rw [h x (by simp), ih (fun a ha => h a (by simp [ha]))]

theorem entries_eq (s : State) (b : Bool) (f : Nat → Option Nat)
    (hf : ∀ a i, f a = some i ↔ (s.all a = some i ∧ typOf s i = b ∧ s.flag i = true)) :
    entries s f =
      (s.dom.filterMap fun a => match s.all a with
        | some i => if typOf s i = b ∧ s.flag i then some (a, i) else none
        | none => none).foldr insertByAddr [] := by
  unfold entries
  congr 1
  apply filterMap_congr'
  intro a _
  cases hfa : f a with
  | none =>
    cases hall : s.all a with
    | none => simp
    | some i =>
      have : ¬ (typOf s i = b ∧ s.flag i = true) := by
        intro hh
        have := (hf a i).mpr ⟨hall, hh.1, hh.2⟩
        rw [hfa] at this; simp at this
      simp [this]
  | some i =>
    have := (hf a i).mp hfa
    simp [this.1, this.2.1, this.2.2]

theorem healthy_eq_spec (s : State) (h : Inv s) : healthy s = usableSpec s := by
  unfold healthy usableSpec
  simp only
  rw [entries_eq s true s.hMain h.main, entries_eq s false s.hBackup h.backup]
  rfl

end SamVerif.Proofs.HostSet
