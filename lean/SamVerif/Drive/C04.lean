import SamVerif.Drive.Cluster
namespace SamVerif.Drive.C04
open SamVerif SamVerif.Drive SamVerif.Drive.Cluster

def containsErr (s : String) (cls : String) : Bool := (s.splitOn cls).length > 1

/-- C04 on what was observed: no MOVED or ASK reaches a client, and an error of the proxy is only
reported when a node owning one of the command's keys is unreachable.  `strict = false` leaves
out the recorded finding F-04c (the first request for a slot of a master that has just been
replaced fails with the connect error that triggers the refresh). -/
def handle (kind : String) (args : List String) (impl : String) : String :=
  if kind == "c04.askpair" then
    -- a single server: SET ka v1, GET ka → OK, v1; GET kb → vb; and v1 stays.  ASKING and the command it is for reach the target
    -- back to back, whatever other traffic the target's connection carries.
    (if impl == "c1=s4f4b,b7631 c2=b7662 final=b7631" then "ok"
     else s!"DIFF model=c1=s4f4b,b7631 c2=b7662 final=b7631 impl={impl} ; SPEC redirected-command-not-answered-as-a-single-server-would impl={impl}") else
  let strict := kind == "c04.strict"
  match evaluate args impl with
  | none => "bad-op"
  | some v =>
    match v.impl with
    | none => "bad-op"
    | some p =>
      let o := v.model
      let leaked := p.replies.any fun r => containsErr r "Emoved" || containsErr r "Eask"
      let unjustified := ((o.replies.zip p.replies).zip o.reachable).any fun ((m, i), reach) =>
        reach && containsErr i "E" && (i.startsWith "E" || i.startsWith "[") &&
          (strict || !(containsErr m "Eunreachable"))
      -- a command whose keys are all reachable returns the single server's reply
      let wrong := ((o.replies.zip p.replies).zip o.reachable).any fun ((m, i), reach) =>
        reach && !(containsErr m "Eunreachable") && !(sameReply m i)
      let sp :=
        if leaked then "redirection-error-reached-the-client"
        else if wrong || p.replies.length != o.replies.length then "reply-differs-from-a-single-server"
        else if unjustified then "error-reply-although-every-owning-node-is-reachable"
        else ""
      let ss := if sp == "" then "" else s!"SPEC {sp} impl={impl}"
      if v.diff == "" && ss == "" then "ok" else v.diff ++ (if v.diff != "" && ss != "" then " ; " else "") ++ ss

end SamVerif.Drive.C04
