import SamVerif.Drive.Cluster
namespace SamVerif.Drive.C07
open SamVerif SamVerif.Drive SamVerif.Drive.Cluster

/-- C07 on what was observed: an error is only reported for a request whose node was unreachable
(the model says so), and once a refresh has settled after a layout change requests are not
redirected any more -/
def handle (_kind : String) (args : List String) (impl : String) : String :=
  match evaluate args impl with
  | none => "bad-op"
  | some v =>
    match v.impl with
    | none => "bad-op"
    | some p =>
      let o := v.model
      let errWithoutCause := (o.replies.zip p.replies).any fun (m, i) =>
        i.startsWith "E" && m != "Eunreachable" && !(m.startsWith "E")
      let stillRedirecting := (o.mustBeZero.zip p.redirs).any fun (z, r) => z && r != 0
      let sp :=
        if errWithoutCause then "error-reply-although-the-backend-is-reachable"
        else if stillRedirecting then "still-redirected-after-a-settled-refresh"
        else ""
      let ss := if sp == "" then "" else s!"SPEC {sp} impl={impl}"
      if v.diff == "" && ss == "" then "ok" else v.diff ++ (if v.diff != "" && ss != "" then " ; " else "") ++ ss

end SamVerif.Drive.C07
