import SamVerif.Drive.Cluster
namespace SamVerif.Drive.C07
open SamVerif SamVerif.Drive SamVerif.Drive.Cluster

/-- C07 on what was observed: an error is only reported for a request whose node was unreachable
(the model says so), and once a refresh has settled after a layout change requests are not
redirected any more -/
def handle (_kind : String) (args : List String) (impl : String) : String :=
  if _kind == "c07.uto" then
    -- every backend connection has the 10 s user timeout: a peer that vanished is given up after 10 s, not after the kernel's 15 minutes
    (let vals := (impl.drop 4).toString.splitOn ","
     if impl.startsWith "uto=" && vals.all (· == "10000") then "ok"
     else if impl.startsWith "uto=" && vals.all (fun v => v != "0") then s!"DIFF model=uto=10000 impl={impl}"
     else s!"SPEC a-backend-connection-whose-peer-vanishes-is-never-given-up impl={impl}") else
  if _kind == "c07.hol" then
    -- `Model.Upstream`: node 0 is up and its table entry is absent or ended, so the request makes a connect attempt of
    -- its own and is served (`request … = .served`), whatever a connect to another node is doing
    (if impl == "during=b7630 after=b7630" then "ok"
     else s!"DIFF model=during=b7630 after=b7630 impl={impl} ; SPEC error-reply-although-the-backend-is-reachable impl={impl}") else
  match evaluate args impl with
  | none => "bad-op"
  | some v =>
    match v.impl with
    | none => "bad-op"
    | some p =>
      let o := v.model
      let errWithoutCause := (o.replies.zip p.replies).any fun (m, i) =>
        i.startsWith "E" && m != "Eunreachable" && !(m.startsWith "E")
      let stillRedirecting := (o.mustBeZero.zip p.redirs).any fun (z, r) => z && r != 0
      let sp :=
        if errWithoutCause then "error-reply-although-the-backend-is-reachable"
        else if stillRedirecting then "still-redirected-after-a-settled-refresh"
        else ""
      let ss := if sp == "" then "" else s!"SPEC {sp} impl={impl}"
      if v.diff == "" && ss == "" then "ok" else v.diff ++ (if v.diff != "" && ss != "" then " ; " else "") ++ ss

end SamVerif.Drive.C07
