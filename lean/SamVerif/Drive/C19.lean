import SamVerif.Drive.Common
import SamVerif.Model.Hotkey
import SamVerif.Model.HotShare
namespace SamVerif.Drive.C19
open SamVerif SamVerif.Drive SamVerif.Hotkey

def showNodes (ns : Nodes) : String :=
  if ns.isEmpty then "-" else
  ";".intercalate (ns.map fun n => s!"{n.1}:{",".intercalate (n.2.map fun k => s!"k{k}")}")

def insertSorted (p : Nat × Nat) : List (Nat × Nat) → List (Nat × Nat)
  | [] => [p]
  | x :: xs => if x.1 ≤ p.1 then x :: insertSorted p xs else p :: x :: xs

def showLatch (l : List (Nat × Nat)) : String :=
  let s := l.foldr insertSorted []
  "L{" ++ ",".intercalate (s.map fun p => s!"k{p.1}={p.2}") ++ "}"

def runCnt (c : Counter) : List String → List String
  | [] => []
  | o :: rest =>
    if o.startsWith "i" then
      match (o.drop 1).toString.toNat? with
      | none => ["bad-op"]
      | some k =>
        match incr c k with
        | none => ["panic"]
        | some c' => showNodes c'.nodes :: runCnt c' rest
    else if o == "l" then
      let (l, c') := latch c
      (showLatch l ++ showNodes c'.nodes) :: runCnt c' rest
    else if o == "f" then
      let c' := { c with nodes := [] }
      showNodes c'.nodes :: runCnt c' rest
    else if o == "F" then
      -- (c19.share) another connection to the same backend, which shares the counter, is stopped: nothing changes for this one
      showNodes c.nodes :: runCnt c rest
    else ["bad-op"]

def parseHots (s : String) (withLut : Bool) : Option (List (String × Hot)) :=
  if s == "-" then some [] else
  ((s.splitOn ",").zipIdx).mapM fun (e, i) =>
    match e.splitOn ":", withLut with
    | [n, v], false => v.toNat?.map fun v => (n, { name := i, val := v, lut := 0 })
    | [n, v, l], true => do
      let v ← v.toNat?
      let l ← l.toInt?
      pure (n, { name := i, val := v, lut := l })
    | _, _ => none

def showHots (names : List String) (hs : List Hot) (withLut : Bool) : String :=
  if hs.isEmpty then "-" else
  ",".intercalate (hs.map fun h =>
    let n := names.getD h.name "?"
    if withLut then s!"{n}:{h.val}:{h.lut}" else s!"{n}:{h.val}")

/-- report well-formedness (the property's own words): at most `cap` entries, no name twice,
non-increasing heat, only names from `allowed` (when given) -/
def reportOk (cap : Nat) (allowed : Option (List String)) (entries : List (String × Nat)) : Option String :=
  let names := entries.map (·.1)
  if entries.length > cap then some "more-than-capacity"
  else if names.eraseDups.length != names.length then some "duplicate-key"
  else if !(entries.zip (entries.drop 1)).all (fun p => p.1.2 ≥ p.2.2) then some "not-sorted-by-heat"
  else match allowed with
    | some a => if names.all (fun n => a.contains n) then none else some "key-never-accessed"
    | none => none

def parseReport (s : String) : Option (List (String × Nat)) :=
  if s == "-" then some [] else
  (s.splitOn ",").mapM fun e =>
    match e.splitOn ":" with
    | n :: v :: _ => v.toNat?.map (fun v => (n, v))
    | _ => none

def handle (kind : String) (args : List String) (impl : String) : String :=
  match kind, args with
  | "c19.flt", toks =>
    -- the filter counts every access under the name of its key, whole and unchanged: "reports for every key it still tracks
    -- exactly the number of accesses"; eval, cluster, auth, scan and requests without arguments carry no key
    let parsed := toks.mapM fun tk =>
      match tk.splitOn ":" with
      | [c, k] => (parseHex c).bind fun cb => if k == "-" then some (cb, none) else (parseHex k).map fun kb => (cb, some kb)
      | _ => none
    match parsed with
    | none => "bad-op"
    | some reqs =>
      let lower (b : List UInt8) : List UInt8 := b.map fun x => if 65 ≤ x.toNat && x.toNat ≤ 90 then UInt8.ofNat (x.toNat + 32) else x
      let keyless : List (List UInt8) := ["eval", "cluster", "auth", "scan"].map (fun s => s.toUTF8.toList)
      let keys : List (List UInt8) := reqs.filterMap fun (c, k) => if keyless.contains (lower c) then none else match k with
        | some kb => if kb.isEmpty then none else some kb
        | none => none
      let distinct := keys.eraseDups
      let rows : List String := distinct.map fun k => s!"{toHex k}={keys.count k}"
      let sorted := rows.foldr (fun x acc => (acc.takeWhile (fun y => y < x)) ++ x :: (acc.dropWhile (fun y => y < x))) []
      let m := if sorted.isEmpty then "-" else ",".intercalate sorted
      verdict impl m m
  | "c19.share", capS :: ops =>
    -- `Model.HotShare`: the counter of a backend is held by two connections; the one that is still open keeps counting exactly
    -- whatever happens to the other (`Props.C19s.live_counter_is_its_own`)
    match capS.toNat? with
    | some cap =>
      let rec go (s : HotShare.Shared) : List String → List String
        | [] => []
        | o :: rest =>
          if o.startsWith "i" then
            match (o.drop 1).toString.toNat? with
            | none => ["bad-op"]
            | some k =>
              match HotShare.step s (.incr k) with
              | none => ["panic"]
              | some s' => showNodes s'.c.nodes :: go s' rest
          else if o == "l" then
            let l := (latch s.c).1
            match HotShare.step s .latch with
            | none => ["panic"]
            | some s' => (showLatch l ++ showNodes s'.c.nodes) :: go s' rest
          else if o == "F" then
            -- the other connection is stopped (only once: a second F is a no-op of the harness)
            let s' := (HotShare.step s .freeOther).getD s
            showNodes s'.c.nodes :: go s' rest
          else if o == "f" then
            -- the live connection is stopped too: the last holder empties the counter
            let s' : HotShare.Shared := { s with c := { s.c with nodes := [] } }
            showNodes s'.c.nodes :: go s' rest
          else ["bad-op"]
      let outs := go { c := { cap := cap, nodes := [] }, refs := 2 } ops
      let m := if outs.isEmpty then "-" else "|".intercalate outs
      verdict impl m m
    | none => "bad-op"
  | "c19.cnt", capS :: ops =>
    match capS.toNat? with
    | some cap =>
      let outs := runCnt { cap := cap, nodes := [] } ops
      let m := if outs.isEmpty then "-" else "|".intercalate outs
      verdict impl m m
    | none => "bad-op"
  | "c19.ins", [capS, es] =>
    match capS.toNat?, parseHots es false with
    | some cap, some named =>
      let names := named.map (·.1)
      let (data, res) := named.foldl (fun (acc : List Hot × String) e =>
        let d' := insert cap acc.1 e.2
        (d', acc.2 ++ (if d' == acc.1 then "f" else "t"))) ([], "")
      let m := showHots names data false ++ "|" ++ res
      -- spec on the implementation's own output
      let sp := match parseReport ((impl.splitOn "|").headD "") with
        | some rep => (reportOk cap (some names) rep).getD ""
        | none => "unparsable"
      let d := if impl == m then "" else s!"DIFF model={m} impl={impl}"
      let s := if sp == "" then "" else s!"SPEC {sp} impl={impl}"
      if d == "" && s == "" then "ok" else d ++ (if d != "" && s != "" then " ; " else "") ++ s
    | _, _ => "bad-op"
  | "c19.evict", [nowS, es] =>
    match nowS.toInt?, parseHots es true with
    | some now, some named =>
      let names := named.map (·.1)
      let m := showHots names (evictStale now (named.map (·.2))) true
      let sp := match parseReport impl with
        | some rep => if rep.any (fun e => e.2 == 0) then "zero-heat-entry" else (reportOk 255 (some names) rep).getD ""
        | none => "unparsable"
      let d := if impl == m then "" else s!"DIFF model={m} impl={impl}"
      let s := if sp == "" then "" else s!"SPEC {sp} impl={impl}"
      if d == "" && s == "" then "ok" else d ++ (if d != "" && s != "" then " ; " else "") ++ s
    | _, _ => "bad-op"
  | "c19.col", capS :: _ =>
    -- no exact model (the heat increments are random): the spec is checked on every report
    match capS.toNat?, impl.splitOn " #" with
    | some cap, [reps, acc] =>
      let allowed := acc.splitOn ","
      let bad := (reps.splitOn "|").filterMap fun r =>
        match parseReport r with
        | some rep => reportOk cap (some allowed) rep
        | none => some "unparsable"
      if bad.isEmpty then "ok" else s!"SPEC {bad.headD ""} impl={impl}"
    | _, _ => if impl.startsWith "panic" then s!"SPEC panic impl={impl}" else "bad-op"
  | _, _ => "bad-op"

end SamVerif.Drive.C19
