import SamVerif.Drive.Common
import SamVerif.Gen.Crc
import SamVerif.Spec.Crc
namespace SamVerif.Drive.C12
open SamVerif SamVerif.Drive

/-- `c12 <hexkey> => <crc> <hextag>`; model = generated code, spec = bitwise. -/
def handle (args : List String) (impl : String) : String :=
  match args with
  | [k] =>
    match parseHex k with
    | none => "bad-op"
    | some key =>
      let m := s!"{(Gen.Crc.crc16 key).toNat} {toHex (Gen.Crc.hashtag key)} {Gen.Crc.slotOf key}"
      let t := Spec.Crc.hashtag key
      let sp := s!"{(Spec.Crc.crc key).toNat} {toHex t} {Spec.Crc.slot key}"
      verdict impl m sp
  | _ => "bad-op"

end SamVerif.Drive.C12
