import SamVerif.Drive.Common
import SamVerif.Model.Listener
import SamVerif.Model.TableReplace
namespace SamVerif.Drive.C09
open SamVerif SamVerif.Drive SamVerif.Listener

structure X where
  s : L
  tcp : Bool
  mode : String
  portFree : Bool := true
  armE : Bool := false
  armB : Bool := false
  armK : Bool := false
  startedByScript : Bool := false
  /-- per `o`: the model id of the accepted connection (none = refused / closed at once) -/
  conns : List (Option Nat) := []
  served : List Char := []
  stopCalled : Bool := false

def tryL (x : X) (l : Label) : Option X := (step x.s l).map fun s' => { x with s := s' }

/-- one internal step under the armed parks, in a fixed order; `none` = at rest -/
def next (x : X) : Option X :=
  let s := x.s
  let cands : List Label :=
    (if x.armE then [] else [.seeQuit, .checkOk]) ++
    (if s.serve == .checked then (if x.portFree then [.bindOk] else if s.quit || s.drain then [.bindFail] else []) else []) ++
    (if x.armB then [] else [.publish]) ++
    [.acceptFail] ++ (s.handlers.map fun h => if h.2 then Label.handlerExit h.1 else Label.handlerAdd h.1) ++
    [.connsDone, .stopTake] ++ (if x.armK then [] else [.stopLn, .stopConns, .stopWait]) ++ [.drainLn]
  cands.findSome? (tryL x)

def settle (x : X) : Nat → X
  | 0 => x
  | fuel + 1 => match next x with | some y => settle y fuel | none => x

def applyTok (x : X) (tok : String) : Option X :=
  let st (y : X) : X := settle y 200
  if tok == "B" then some { x with portFree := false }
  else if tok == "b" then some (st { x with portFree := true })
  else if tok == "Pe" then some { x with armE := true }
  else if tok == "Pb" then some { x with armB := true }
  else if tok == "Re" then some (st { x with armE := false })
  else if tok == "Rb" then some (st { x with armB := false })
  else if tok == "Pk" then some { x with armK := true }
  else if tok == "Rk" then some (st { x with armK := false })
  else if tok == "S" then
    if x.startedByScript then some x
    else (tryL { x with startedByScript := true } .serveEnter).map st
  else if tok == "w" then some x
  else if tok == "D" then
    match tryL x .drainClose with
    | some y => some (st y)
    | none => some x
  else if tok == "K" then
    if x.stopCalled then some x
    else (tryL { x with stopCalled := true } .stopQuit).map st
  else if tok == "o" then
    if x.s.serve == .bound then none      -- the kernel accepts while Serve is parked: not generated
    else match tryL x .accept with
    | none => some { x with conns := x.conns ++ [none], served := x.served ++ ['r'] }
    | some y =>
      if !x.portFree then some { x with conns := x.conns ++ [none], served := x.served ++ ['r'] } else
      let id := x.s.naccepted
      let y1 := (tryL y (.handlerAdd id)).getD y
      let registered := y1.s.handlers.contains (id, true)
      if registered && !(x.tcp && x.mode == "c") then
        some { y1 with conns := y1.conns ++ [some id], served := y1.served ++ ['y'] }
      else
        -- over the limit, or (TCP) the dial fails: the proxy closes the connection at once
        let y2 := if registered then (tryL y1 (.clientClose id)).getD y1 else y1
        some (st { y2 with conns := y2.conns ++ [none], served := y2.served ++ ['n'] })
  else if tok.startsWith "x" then
    match (tok.drop 1).toString.toNat? with
    | none => none
    | some i =>
      match x.conns.getD i none with
      | none => if i < x.conns.length then some x else none
      | some id =>
        let y := (tryL x (.clientClose id)).getD x
        some (st { y with conns := x.conns.set i none })
  else none

def runToks (x : X) : List String → Option X
  | [] => some x
  | t :: ts => match applyTok x t with | some y => runToks y ts | none => none

def field (impl k : String) : String :=
  match (words impl).find? (·.startsWith (k ++ "=")) with
  | some w => (w.drop (k.length + 1)).toString
  | none => "?"

def handle (kind : String) (args : List String) (impl : String) : String :=
  match kind, args with
  | "c09.life", proto :: mode :: lim :: toks0 =>
    -- O = o with 40 pipelined requests: the same connection as far as the listener is concerned
    let toks := toks0.map fun t => if t == "O" then "o" else t
    match lim.toNat? with
    | none => "bad-op"
    | some limit =>
      match runToks { s := { limit := limit }, tcp := proto == "T", mode := mode } toks with
      | none => "bad-op"
      | some x0 =>
        let x := settle { x0 with armE := false, armB := false, armK := false } 200
        let stop := if !x.stopCalled then "none" else if x.s.stopPc == .returned then "ok" else "hangs"
        let port := if !x.startedByScript then "unbound" else if x.s.lnOpen then "open" else "closed"
        let held := x.conns.filterMap id
        let down := s!"{(held.filter (x.s.closed.contains ·)).length}/{held.length}"
        let served := if x.served.isEmpty then "." else String.ofList x.served
        let m := s!"stop={stop} port={port} served={served} down={down}"
        let got := s!"stop={field impl "stop"} port={field impl "port"} served={field impl "served"} down={field impl "down"}"
        let d := if got == m then "" else s!"DIFF model={m} impl={impl}"
        -- the property on what was observed: Stop returned, the port is closed, every connection of the
        -- service (downstream and upstream) is closed, no goroutine is left
        let up := (field impl "up").splitOn "/"
        let dn := (field impl "down").splitOn "/"
        -- StopListen: every connection attempt made after it must not be served
        let servedImpl := (field impl "served").toList
        let afterDrain : List Bool :=
          (toks.foldl (fun (acc : Bool × List Bool) t =>
            if t == "D" then (true, acc.2) else if t == "o" then (acc.1, acc.2 ++ [acc.1]) else acc) (false, [])).2
        let drainBroken := (afterDrain.zip servedImpl).any fun (after, c) => after && c == 'y'
        let sp :=
          if drainBroken then "connection-served-after-stop-listen"
          else if toks.contains "D" && toks.contains "S" && field impl "port" == "open" then "port-still-accepting-after-stop-listen"
          else if !x.stopCalled then ""
          else if field impl "stop" != "ok" then "stop-does-not-return"
          else if field impl "port" == "open" then "port-still-open-after-stop"
          else if dn.getD 0 "a" != dn.getD 1 "b" then "downstream-connection-left-open-after-stop"
          else if up.getD 0 "a" != up.getD 1 "b" then "upstream-connection-left-open-after-stop"
          else if field impl "leaked" != "0" then "goroutines-left-after-stop"
          else ""
        let ss := if sp == "" then "" else s!"SPEC {sp} impl={impl}"
        if d == "" && ss == "" then "ok" else d ++ (if d != "" && ss != "" then " ; " else "") ++ ss
  | "c09.table", toks =>
    -- `Model.TableReplace` driven by the script: how many connections are made (`next`), and — `Props.C09t.stop_leaves_nothing_running` —
    -- Stop closes every one of them
    let stepD (t : TableReplace.T) (l : TableReplace.Label) : TableReplace.T := (TableReplace.step t l).getD t
    -- (state, armed, parked connection)
    let ended (t : TableReplace.T) (armed : Bool) (parked : Option Nat) (id : Nat) : TableReplace.T × Bool × Option Nat :=
      if armed && parked.isNone then (t, false, some id) else (stepD t (.ended id), armed, parked)
    let go := toks.foldl (fun (acc : Option (TableReplace.T × Bool × Option Nat)) tok =>
      match acc with
      | none => none
      | some (t, armed, parked) =>
        if tok == "g" then some (if t.table.isNone then stepD t .create else t, armed, parked)
        else if tok == "P" then some (t, parked.isNone, parked)
        else if tok == "R" then
          match t.table with
          | some id => some (ended (stepD t .replaceAll) armed parked id)
          | none => some (t, armed, parked)
        else if tok == "L" then
          match t.table with
          | some id => if id ∈ t.running then some (ended (stepD t (.lost id)) armed parked id) else some (t, armed, parked)
          | none => some (t, armed, parked)
        else if tok == "E" then
          match parked with
          | some id => some (stepD t (.ended id), false, none)
          | none => some (t, false, parked)
        else none) (some (stepD {} .create, false, none))      -- the slot refresh of the start has made the first connection
    match go with
    | none => "bad-op"
    | some (t, _, _) =>
      let up := (field impl "up").splitOn "/"
      let d := if up.getD 1 "" == toString t.next then "" else s!"DIFF model=connections-made={t.next} impl={impl}"
      let sp :=
        if field impl "stop" != "ok" then "stop-does-not-return"
        else if up.getD 0 "a" != up.getD 1 "b" then "upstream-connection-left-open-after-stop"
        else if field impl "leaked" != "0" then "goroutines-left-after-stop"
        else ""
      let ss := if sp == "" then "" else s!"SPEC {sp} impl={impl}"
      if d == "" && ss == "" then "ok" else d ++ (if d != "" && ss != "" then " ; " else "") ++ ss
  | "c09.create", [] =>
    -- `Props.C09u.upstream_stop_completes`: Stop's snapshot of the connection table is taken under the lock createClient publishes under
    let up := (field impl "up").splitOn "/"
    let sp :=
      if impl == "not-parked" then "pause-point-upstream.client.checked-not-reached"
      else if field impl "stop" != "ok" then "stop-does-not-return"
      else if up.getD 0 "a" != up.getD 1 "b" then "upstream-connection-left-open-after-stop"
      else if field impl "leaked" != "0" then "goroutines-left-after-stop"
      else ""
    if sp == "" then "ok" else s!"SPEC {sp} impl={impl}"
  | "c09.replace", [] =>
    -- `Props.C09t.stop_leaves_nothing_running`: whatever connections were made while the host list was being replaced, Stop closes them all
    let up := (field impl "up").splitOn "/"
    let sp :=
      if impl == "not-parked" then "pause-point-client.start.drain-not-reached"
      else if field impl "stop" != "ok" then "stop-does-not-return"
      else if up.getD 0 "a" != up.getD 1 "b" then "upstream-connection-left-open-after-stop"
      else if field impl "leaked" != "0" then "goroutines-left-after-stop"
      else if (impl.splitOn "unserved").length > 1 then "request-not-served"
      else ""
    if sp == "" then "ok" else s!"SPEC {sp} impl={impl}"
  | "c09.redir", [_] =>
    -- `Props.C09u.upstream_stop_completes`: Stop returns, both backend connections are closed, nothing is left running —
    -- also when the read loop was past the quit check of MakeRequestToHost when Stop closed quit
    let up := (field impl "up").splitOn "/"
    let sp :=
      if impl == "not-parked" then "pause-point-upstream.request.checked-not-reached"
      else if field impl "stop" != "ok" then "stop-does-not-return"
      else if up.getD 0 "a" != up.getD 1 "b" then "upstream-connection-left-open-after-stop"
      else if field impl "leaked" != "0" then "goroutines-left-after-stop"
      else ""
    if sp == "" then "ok" else s!"SPEC {sp} impl={impl}"
  | "c09.burst", [lim, n, rounds] =>
    match lim.toNat?, n.toNat?, rounds.toNat? with
    | some limit, some n, some rounds =>
      -- `limit_never_exceeded` / `under_limit_served`: with every connection held, exactly min(n, limit) are served
      let k := if limit == 0 then n else min n limit
      let m := "served=" ++ ",".intercalate (List.replicate rounds (toString k))
      let over := (((impl.drop 7).toString.splitOn ",").filterMap String.toNat?).any (fun s => limit != 0 && s > limit)
      let d := if impl == m then "" else s!"DIFF model={m} impl={impl}"
      let ss := if over then s!"SPEC more-connections-served-than-the-limit impl={impl}" else ""
      if d == "" && ss == "" then "ok" else d ++ (if d != "" && ss != "" then " ; " else "") ++ ss
    | _, _, _ => "bad-op"
  | _, _ => "bad-op"

end SamVerif.Drive.C09
