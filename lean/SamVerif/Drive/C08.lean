import SamVerif.Drive.Common
import SamVerif.Model.Conf
import SamVerif.Model.HcReset
namespace SamVerif.Drive.C08
open SamVerif SamVerif.Drive SamVerif.Conf

def nats (s : String) : List Nat := (s.splitOn ",").filterMap (·.toNat?)

def sortNats (l : List Nat) : List Nat :=
  l.foldr (fun x acc => (acc.takeWhile (· < x)) ++ x :: (acc.dropWhile (· < x))) []

structure St where
  store : Store
  queue : List Event
  procs : Procs
  names : List Nat

def consume (st : St) (k : Option Nat) : St :=
  let n := match k with | some k => min k st.queue.length | none => st.queue.length
  { st with procs := drain st.procs (st.queue.take n), queue := st.queue.drop n }

def stepTok (st : St) (tok : String) : Option St :=
  let c := tok.toList.headD ' '
  if c == 'd' then
    match (tok.drop 2).toString.toNat? with
    | none => none
    | some n =>
      let (s', ev) := if tok.toList.getD 1 ' ' == '+' then depAdd st.store n else depRemove st.store n
      some { st with store := s', queue := st.queue ++ ev, names := if st.names.contains n then st.names else n :: st.names }
  else if c == 'c' then
    match (tok.drop 1).toString.splitOn "." with
    | [ns, "nil"] => ns.toNat?.map fun _ => st          -- an update without a configuration carries nothing to apply
    | [ns, rest] =>
      -- "u" (passes Validate(), no processor can be made from it) is not a valid configuration in the property's sense
      match ns.toNat?, (rest.dropEnd 1).toString.toNat? with
      | some n, some id =>
        let (s', ev) := cfgUpdate st.store n { id := id, valid := rest.endsWith "v" }
        some { st with store := s', queue := st.queue ++ ev }
      | _, _ => none
    | _ => none
  else if c == 'e' then
    let body := (tok.drop 1).toString
    match body.splitOn "+" with
    | [ns, rest] =>
      -- rest = "<added>-<removed>": split at the last '-'
      let parts := rest.splitOn "-"
      match ns.toNat?, parts with
      | some n, [a, r] =>
        let (s', ev) := epsUpdate st.store n (nats a) (nats r)
        some { st with store := s', queue := st.queue ++ ev }
      | _, _ => none
    | _ => none
  else if c == 'k' then (tok.drop 1).toString.toNat?.map fun k => consume st (some k)
  else none

def showStore (st : St) : String :=
  let rows := (sortNats st.names).filterMap fun n =>
    match st.store n with
    | none => none
    | some sv =>
      let cfg := match sv.cfg with | some c => toString c.id | none => "-"
      let eps := match sv.eps with
        | some e => "[" ++ ",".intercalate ((sortNats e).map toString) ++ "]"
        | none => "nil"
      some s!"{n}:{cfg}:{eps}"
  -- the implementation sorts rows as strings
  ";".intercalate (rows.toArray.qsort (· < ·)).toList

def showProcs (st : St) : String :=
  let rows := (sortNats st.names).filterMap fun n =>
    match st.procs n with
    | none => none
    | some p => some s!"{n}:{p.cfg.id}:[{",".intercalate ((sortNats p.hosts).map toString)}]"
  ";".intercalate (rows.toArray.qsort (· < ·)).toList

/-- the property: exactly one processor per service that has a valid configuration and a known
endpoint list, with that configuration and exactly those hosts; none otherwise. A service whose
latest configuration is invalid is the recorded finding F-08d and is not constrained here. -/
def specProcs (st : St) : Option String :=
  let rows := (sortNats st.names).filterMap fun n =>
    match st.store n with
    | some { cfg := some c, eps := some e } => if c.valid then some (some s!"{n}:{c.id}:[{",".intercalate ((sortNats e).map toString)}]") else some none
    | _ => none
  if rows.any (·.isNone) then none
  else some (";".intercalate ((rows.filterMap id).toArray.qsort (· < ·)).toList)

/-- the property to the letter: a service whose latest configuration is invalid has no processor -/
def specProcsStrict (st : St) : String :=
  let rows := (sortNats st.names).filterMap fun n =>
    match st.store n with
    | some { cfg := some c, eps := some e } => if c.valid then some s!"{n}:{c.id}:[{",".intercalate ((sortNats e).map toString)}]" else none
    | _ => none
  ";".intercalate (rows.toArray.qsort (· < ·)).toList

def runToks (st : St) : List String → Option St
  | [] => some st
  | t :: ts => match stepTok st t with | some st' => runToks st' ts | none => none

def handle (kind : String) (args : List String) (impl : String) : String :=
  match kind, args with
  | "c08.strict", toks =>
    match runToks { store := fun _ => none, queue := [], procs := fun _ => none, names := [] } toks with
    | none => "bad-op"
    | some st0 =>
      let st := consume st0 none
      let implProcs := ((impl.splitOn " | procs ").getD 1 "")
      let want := specProcsStrict st
      if implProcs == want then "ok" else s!"SPEC processors-differ-from-configured expected={want} impl={impl}"
  | "c08.limit", [] =>
    -- the processor behaves as its latest configuration says: three connections under a limit of three are served
    if impl == "cfg=3 served=3" then "ok" else s!"SPEC processor-does-not-follow-the-latest-configuration impl={impl}"
  | "c08.ep", ["down"] =>
    -- an endpoint announced in state DOWN is not selected for load balancing
    if impl == "usable=1" then "ok" else s!"SPEC endpoint-announced-DOWN-is-usable impl={impl}"
  | "c08.ep", [_] =>
    -- the processor's host set is the latest endpoint set: address and type; an endpoint without an address names no host
    if impl == "store=1m,2b procs=1m,2b" || impl == "store=1m,2m procs=1m,2m" then
      (if (args == ["retype"]) == (impl == "store=1m,2b procs=1m,2b") then "ok" else s!"SPEC processor-hosts-differ-from-the-endpoint-set impl={impl}")
    else s!"SPEC processor-hosts-differ-from-the-endpoint-set impl={impl}"
  | "c08.hc", [mode] =>
    -- `Model.HcReset.reset`: a valid update is applied, an invalid one is refused and changes nothing (`Props.C08h.reset_all_or_nothing`);
    -- nothing crashes; which backends are used follows from the checker in use (the silent backend of mode rej passes a TCP check only)
    let showRes (r : HcReset.Res) : String := match r with | .ok => "ok" | .error => "error" | .panic => "panic"
    let want : Option String :=
      if mode == "int" then
        let (_, r) := HcReset.reset { cfg := { interval := 20, checker := none }, inUse := .tcp } { interval := 30, checker := none }
        some s!"update={showRes r} answered=4/4"
      else if mode == "rej" then
        let (m', r) := HcReset.reset { cfg := { interval := 20, checker := some .redis }, inUse := .redis }
          { interval := 20, checker := some .atcp, buildable := false }
        some s!"update={showRes r} answered={if m'.inUse == .redis then 4 else 2}/4"
      else if mode == "atcp" then some "new=error"      -- a section whose checker cannot be built makes no monitor, and no processor
      else none
    match want with
    | none => "bad-op"
    | some w => if impl == w then "ok" else s!"SPEC processor-does-not-follow-the-latest-valid-configuration expected={w} impl={impl}"
  | "c08.hcoff", [] =>
    -- the processor's configuration is the latest one (no health check), the process is alive, and with no health check every
    -- endpoint is used: two of four round-robin connections reach each backend
    if impl == "update=ok cfg=1 served=2+2/4" then "ok"
    else s!"SPEC processor-does-not-follow-the-latest-configuration impl={impl}"
  | "c08.alias", [_, _] =>
    if impl == "missing=0 extra=0" then "ok" else s!"SPEC processor-hosts-differ-from-the-endpoint-set impl={impl}"
  | "c08.hist", toks =>
    match runToks { store := fun _ => none, queue := [], procs := fun _ => none, names := [] } toks with
    | none => "bad-op"
    | some st0 =>
      let st := consume st0 none
      let m := s!"store {showStore st} | procs {showProcs st}"
      let implProcs := ((impl.splitOn " | procs ").getD 1 "")
      let sp := match specProcs st with
        | some want => if implProcs == want then "" else s!"processors-differ-from-configured expected={want}"
        | none => ""     -- F-08d corner (latest configuration invalid): not constrained
      let d := if impl == m then "" else s!"DIFF model={m} impl={impl}"
      let s := if sp == "" then "" else s!"SPEC {sp} impl={impl}"
      if d == "" && s == "" then "ok" else d ++ (if d != "" && s != "" then " ; " else "") ++ s
  | _, _ => "bad-op"

end SamVerif.Drive.C08
