import SamVerif.Drive.Cluster
namespace SamVerif.Drive.C03
open SamVerif SamVerif.Drive SamVerif.Drive.Cluster

/-- C03 on what was observed: on a stable cluster every reply is the single server's reply, the
data is the single server's data, and nothing is redirected -/
def handle (_kind : String) (args : List String) (impl : String) : String :=
  if _kind == "c03.cold" then
    -- n INCR of one key on one connection: a single server answers 1, 2, …, n
    (match args with
     | [nS] =>
       match nS.toNat? with
       | some n =>
         let want := "vals=" ++ ",".intercalate ((List.range n).map fun i => s!"i{i+1}")
         if impl == want then "ok" else s!"SPEC reply-or-data-differs-from-a-single-server expected={want} impl={impl}"
       | none => "bad-op"
     | _ => "bad-op") else
  match evaluate args impl with
  | none => "bad-op"
  | some v =>
    match v.impl with
    | none => "bad-op"
    | some p =>
      let redirected := p.redirs.any (· != 0)
      let sp := if v.diff != "" then "reply-or-data-differs-from-a-single-server" else if redirected then "redirection-on-a-stable-cluster" else ""
      let ss := if sp == "" then "" else s!"SPEC {sp} impl={impl}"
      if v.diff == "" && ss == "" then "ok" else v.diff ++ (if v.diff != "" && ss != "" then " ; " else "") ++ ss

end SamVerif.Drive.C03
