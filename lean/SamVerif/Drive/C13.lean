import SamVerif.Drive.Common
import SamVerif.Model.Compress
namespace SamVerif.Drive.C13
open SamVerif SamVerif.Drive SamVerif.Compress

/-- the model's decision for one write, given the value's length and the length of the real
codec's stream for it (reported by the harness): framed iff enabled, at least the threshold
long, not itself a frame, and header + stream strictly shorter -/
def decide_ (enabled : Bool) (thr len clen : Nat) : Bool :=
  enabled && !(len < thr) && !(hdr.length + clen ≥ len)

def handle (kind : String) (args : List String) (impl : String) : String :=
  match kind, args with
  | "c13.swap", [_, n] =>
    -- whatever the configuration was when a value was written, it reads back as written, and nothing crashes
    if impl == s!"done={n} bad=0" then "ok" else s!"SPEC value-not-read-back-or-crash-while-the-configuration-was-replaced impl={impl}"
  | "c13.run", _ :: steps =>
    let rec go (enabled : Bool) (thr : Nat) (written : List String) : List String → Option (List String)
      | [] => some []
      | st :: rest =>
        let c := st.toList.headD ' '
        let body := (st.drop 1).toString
        if c == 'E' then body.toNat?.bind fun t => go true t written rest
        else if c == 'D' then go false thr written rest
        else if c == 'W' then
          match body.splitOn "." with
          | _cmd :: key :: len :: _cls :: clen :: _ =>
            match len.toNat?, clen.toNat? with
            | some l, some cl =>
              let out := if decide_ enabled thr l cl then "w:framed,short=t,decodes=t" else "w:raw"
              (go enabled thr (key :: written) rest).map (out :: ·)
            | _, _ => none
          | _ => none
        else if c == 'R' then
          match body.splitOn "." with
          | _cmd :: key :: _ => (go enabled thr written rest).map ((if written.contains key then "r:ok" else "r:nil") :: ·)
          | _ => none
        else if c == 'B' then
          let banned := Gen.Commands.bannedCmdsInCps.contains body.toUTF8.toList
          (go enabled thr written rest).map ((if enabled && banned then "b:rejected" else "b:sent") :: ·)
        else none
    match go false 1 [] steps with
    | some outs =>
      let m := if outs.isEmpty then "-" else " ".intercalate outs
      -- spec on the implementation's own output: every read returns what was written; what is stored
      -- framed is shorter and decodes to the original
      let toks := impl.splitOn " "
      let sp := if toks.any (fun t => t.startsWith "r:bad" || t.startsWith "r:hang" || t.startsWith "w:hang" || t.startsWith "w:other")
                  then "read-back-differs" else
                if toks.any (fun t => t.startsWith "w:framed" && t != "w:framed,short=t,decodes=t") then "frame-not-shorter-or-not-decodable" else ""
      let d := if impl == m then "" else s!"DIFF model={m} impl={impl}"
      let s := if sp == "" then "" else s!"SPEC {sp} impl={impl}"
      if d == "" && s == "" then "ok" else d ++ (if d != "" && s != "" then " ; " else "") ++ s
    | none => "bad-op"
  | _, _ => "bad-op"

end SamVerif.Drive.C13
