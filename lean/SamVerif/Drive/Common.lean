/-
Line-protocol helpers for the model driver (core Lean only).
Byte strings are lower-case hex; the empty string is `-`.
-/
namespace SamVerif.Drive

def hexVal (c : Char) : Option Nat :=
  if '0' ≤ c ∧ c ≤ '9' then some (c.toNat - '0'.toNat)
  else if 'a' ≤ c ∧ c ≤ 'f' then some (c.toNat - 'a'.toNat + 10)
  else if 'A' ≤ c ∧ c ≤ 'F' then some (c.toNat - 'A'.toNat + 10)
  else none

def parseHexChars : List Char → Option (List UInt8)
  | [] => some []
  | [_] => none
  | a :: b :: rest => do
    let x ← hexVal a
    let y ← hexVal b
    let r ← parseHexChars rest
    pure (UInt8.ofNat (x * 16 + y) :: r)

def parseHex (s : String) : Option (List UInt8) :=
  if s == "-" then some [] else parseHexChars s.toList

def hexDigit (n : Nat) : Char :=
  if n < 10 then Char.ofNat ('0'.toNat + n) else Char.ofNat ('a'.toNat + n - 10)

def toHex (b : List UInt8) : String :=
  if b.isEmpty then "-" else
  String.ofList (b.foldr (fun x acc => hexDigit (x.toNat / 16) :: hexDigit (x.toNat % 16) :: acc) [])

/-- split "lhs => rhs" -/
def splitArrow (line : String) : String × String :=
  match line.splitOn " => " with
  | [a] => (a, "")
  | a :: rest => (a, " => ".intercalate rest)
  | [] => ("", "")

def words (s : String) : List String := (s.splitOn " ").filter (· ≠ "")

/-- verdict line: `ok`, or the disagreements -/
def verdict (impl model spec : String) : String :=
  let d := if impl == model then "" else s!"DIFF model={model} impl={impl}"
  let s := if impl == spec then "" else s!"SPEC expected={spec} impl={impl}"
  if d == "" && s == "" then "ok" else (d ++ (if d != "" && s != "" then " ; " else "") ++ s)

end SamVerif.Drive
