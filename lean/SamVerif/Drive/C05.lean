import SamVerif.Drive.Common
import SamVerif.Model.Relay
namespace SamVerif.Drive.C05
open SamVerif SamVerif.Drive SamVerif.Relay

/-- drain a direction: read in buffer-sized chunks and write, then fin if possible (canonical schedule) -/
def drain : Nat → Dir → Dir
  | 0, d => d
  | fuel + 1, d =>
    match d.step .write with
    | some d' => drain fuel d'
    | none =>
      let n := min bufSize (d.sent.length - d.pos)
      match d.step (.read n) with
      | some d' => drain fuel d'
      | none => match d.step .fin with
        | some d' => d'
        | none => d

/-- a script action applied to the model; data bytes are irrelevant to the lengths, use zeros -/
def act (s : State) (a : String) : Option State :=
  let body := (a.splitOn "/").headD ""
  if body.startsWith "cw" then (body.drop 2).toString.toNat?.bind fun n => step s true (.send (List.replicate n 0))
  else if body.startsWith "bw" then (body.drop 2).toString.toNat?.bind fun n => step s false (.send (List.replicate n 0))
  else if body == "cc" then step s true .close
  else if body == "bc" then step s false .close
  else if body.startsWith "p" then some s
  else none

def showDir (p : String) (d : Dir) : String :=
  s!"{p}_got={d.delivered.length} {p}_eof={if d.eof then "t" else "f"} {p}_content=ok"

def handle (kind : String) (args : List String) (impl : String) : String :=
  match kind, args with
  | "c05.relay", _ :: acts =>
    let rec go (s : State) : List String → Option State
      | [] => some s
      | a :: rest => match act s a with
        | none => none
        | some s' => go s' rest
    match go State.init acts with
    | none => "bad-op"
    | some s =>
      let fuel := s.a2b.sent.length + s.b2a.sent.length + 8
      let a := drain fuel s.a2b
      let b := drain fuel s.b2a
      let m := showDir "b" a ++ " " ++ showDir "c" b
      verdict impl m m
  | "c05.late", [_, _] =>
    -- the backend's stream reaches the client whole and ends with end-of-stream, whatever the client does with its own direction
    if impl == "got=2097172/2097172 end=eof" then "ok" else s!"SPEC bytes-of-the-other-direction-lost impl={impl}"
  | "c05.multi", _ => verdict impl "ok" "ok"
  | "c05.paced", [_, idle, gap, count, chunk] =>
    match idle.toNat?, gap.toNat?, count.toNat?, chunk.toNat? with
    | some i, some g, some c, some k =>
      -- gaps below the idle timeout: the model relays everything (the timeout is not modelled, it is excluded by the guard)
      if g * 2 < i then let m := s!"b_got={c * k} b_content=ok"; verdict impl m m else "bad-op"
    | _, _, _, _ => "bad-op"
  | _, _ => "bad-op"

end SamVerif.Drive.C05
