import SamVerif.Drive.Common
import SamVerif.Model.Hot
namespace SamVerif.Drive.C17
open SamVerif SamVerif.Drive SamVerif.Hot

def showRead : Read → String
  | .ok t l d => s!"ok {t} {l} {toHex d}"
  | .err => "err"
  | .panic => "panic"

/-- spec for one read: a frame is accepted iff it carries at least its declared length, and then
the payload is exactly the declared bytes; never a panic -/
def specRead (d : List UInt8) : String :=
  let n := min d.length 4096
  if n < 3 then "err" else
  let len := (d.getD 1 0).toNat * 256 + (d.getD 2 0).toNat
  if n - 3 < len then "err" else s!"ok {(d.getD 0 0).toNat} {len} {toHex ((d.drop 3).take len)}"

def showEvents (es : List Event) : String :=
  if es.isEmpty then "-" else
  ",".intercalate (es.map fun e => match e with | .act n => s!"a:{n}" | .reply t => s!"r:{t}")

/-- children separated by ';', frames by ',': a decimal request type, or x<hex> raw frame -/
def parseSeq (s : String) : Option (List (List (List UInt8))) :=
  (s.splitOn ";").mapM fun ch =>
    if ch == "-" then some [] else
    (ch.splitOn ",").mapM fun f =>
      if f.startsWith "x" then parseHex (f.drop 1).toString
      else f.toNat?.map (fun t => sendMsg t 2 [123, 125])

def handlePipe (s : String) (impl : String) : String :=
  -- the parent performs each requested step in the order requested and acknowledges it before it looks at the next
  -- request — also when the child does not wait: a drain in progress is finished first
  match (s.splitOn ",").mapM String.toNat? with
  | some ts =>
    let evs := ts.flatMap fun t => parentStep t
    let acts := evs.flatMap fun e => match e with
      | .act n => if n == "DrainListeners" then ["a:DrainListeners", "e:DrainListeners"] else [s!"a:{n}"]
      | .reply _ => []
    let reps := evs.filterMap fun e => match e with | .reply t => some s!"r:{t}" | .act _ => none
    let dash (l : List String) := if l.isEmpty then "-" else ",".intercalate l
    let m := s!"acts={dash acts} replies={dash reps}"
    let spEvs := ts.flatMap specStep
    let spActs := spEvs.flatMap fun e => match e with
      | .act n => if n == "DrainListeners" then ["a:DrainListeners", "e:DrainListeners"] else [s!"a:{n}"]
      | .reply _ => []
    let spReps := spEvs.filterMap fun e => match e with | .reply t => some s!"r:{t}" | .act _ => none
    verdict impl m s!"acts={dash spActs} replies={dash spReps}"
  | none => "bad-op"

def handle (kind : String) (args : List String) (impl : String) : String :=
  match kind, args with
  | "c17.read", [h] =>
    match parseHex h with
    | some d => verdict impl (showRead (readMsg Gen.Hotrestart.readBufSize d)) (specRead d)
    | none => "bad-op"
  | "c17.send", [t, l, h] =>
    match t.toNat?, l.toNat?, parseHex h with
    | some t, some l, some d => let m := toHex (sendMsg t l d); verdict impl m m
    | _, _, _ => "bad-op"
  | "c17.seq", [s] =>
    match parseSeq s with
    | some cs =>
      let m := ";".intercalate (cs.map (fun c => showEvents (child Gen.Hotrestart.readBufSize c)))
      let sp := ";".intercalate (cs.map (fun c => showEvents (c.flatMap fun f =>
        match specRead f |>.splitOn " " with
        | "ok" :: t :: _ => specStep t.toNat!
        | _ => [])))
      verdict impl m sp
    | none => "bad-op"
  | "c17.burst", [s] => handlePipe s impl
  | "c17.pipe", [s] => handlePipe s impl
  | _, _ => "bad-op"

end SamVerif.Drive.C17
