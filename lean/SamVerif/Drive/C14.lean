import SamVerif.Drive.Common
import SamVerif.Model.Dispatch
import SamVerif.Spec.RedisFlags
import SamVerif.Model.ScanWalk
namespace SamVerif.Drive.C14
open SamVerif SamVerif.Drive SamVerif.Dispatch

def classOf : Kind → String
  | .ping => "pong" | .quit => "ok" | .select => "ok" | .info => "info" | .time => "time" | .hotkey => "hotkey"
  | _ => "?"

def showRoles (rs : List Role) : String :=
  String.ofList ((if rs.contains .M then ['M'] else []) ++ (if rs.contains .R then ['R'] else []))

/-- model output: like the implementation's, but with the *set* of permitted roles per child -/
def modelOut (s : Strategy) (name : List UInt8) (n : Nat) : String :=
  match dispatch name n with
  | .invalid => "invalid"
  | .unsupported => "unsupported"
  | .answered k => s!"answered {classOf k}"
  | .scan => "scan"
  | .forward cs => "fwd " ++ ",".intercalate (cs.map fun c => s!"{toHex c.1}:{c.2}:{showRoles (candidates s (isReadOnly c.1) 2)}")

/-- compare `fwd name:idx:role,…` with the model's `fwd name:idx:roles,…` -/
def agrees (impl model : String) : Bool :=
  if !(impl.startsWith "fwd ") || !(model.startsWith "fwd ") then impl == model else
  let is := (impl.drop 4).toString.splitOn ","
  let ms := (model.drop 4).toString.splitOn ","
  is.length == ms.length && (is.zip ms).all fun (i, m) =>
    match i.splitOn ":", m.splitOn ":" with
    | [n1, k1, r1], [n2, k2, r2] => n1 == n2 && k1 == k2 && r1.length == 1 && (r2.toList.any (fun c => r1.toList.contains c))
    | _, _ => false

/-- the property's own words, checked on the implementation's output -/
def specCheck (s : Strategy) (lname : List UInt8) (supported : Bool) (impl : String) : String :=
  if !supported then
    (if impl == "unsupported" || impl == "invalid" then "" else "unsupported-name-not-rejected")
  else if !(impl.startsWith "fwd ") then "" else
  let bad := ((impl.drop 4).toString.splitOn ",").filterMap fun i =>
    match i.splitOn ":" with
    | [n, _, r] =>
      match parseHex n with
      | none => some "unparsable"
      | some child =>
        let cl := asciiLower child
        if r == "X" then some "sent-to-a-node-that-is-neither-owner-nor-its-replica"
        else if r == "R" && Spec.RedisFlags.canModify cl then some "modifying-command-sent-to-a-replica"
        else if r == "R" && s == .master then some "replica-used-under-MASTER-strategy"
        else if r == "M" && s == .replica && !Spec.RedisFlags.canModify cl && Gen.Commands.readOnlyCommands.contains cl then some "read-not-sent-to-replica-under-REPLICA-strategy"
        else none
    | _ => some "unparsable"
  bad.headD ""

/-- the supported set as the documentation states it: the tables, compared after ASCII lower-casing -/
def supportedName (name : List UInt8) : Bool := (handlerOf (asciiLower name)).isSome

def handle (kind : String) (args : List String) (impl : String) : String :=
  match kind, args with
  | "c14.cmd", [st, nameHex, nS] =>
    let s? : Option Strategy := if st == "M" then some .master else if st == "R" then some .replica else if st == "B" then some .both else none
    match s?, parseHex nameHex, nS.toNat? with
    | some s, some name, some n =>
      let m := modelOut s name n
      let d := if agrees impl m then "" else s!"DIFF model={m} impl={impl}"
      let sp := specCheck s (asciiLower name) (supportedName name) impl
      let spS := if sp == "" then "" else s!"SPEC {sp} impl={impl}"
      if d == "" && spS == "" then "ok" else d ++ (if d != "" && spS != "" then " ; " else "") ++ spS
    | _, _, _ => "bad-op"
  | "c14.demoted", [] =>
    -- under the MASTER strategy no read is executed by a node that is a replica
    if impl.startsWith "replica-reads=0/" then "ok" else s!"SPEC read-served-by-a-replica-under-the-MASTER-strategy impl={impl}"
  | "c14.flags", [st, fa, fb] =>
    -- reads go to the replicas of the owning master the cluster does not report as failed / without address / in handshake
    -- (its own suspicion "fail?" does not count), to the master when the strategy asks for it or no such replica is left
    let usable (f : String) : Bool := !((f.splitOn ",").any fun x => x == "fail" || x == "noaddr" || x == "handshake")
    let reps := (if usable fa then ["Ra"] else []) ++ (if usable fb then ["Rb"] else [])
    let want : List String :=
      if st == "M" then ["M"] else if st == "R" then (if reps.isEmpty then ["M"] else reps) else "M" :: reps
    let m := "reads=" ++ ",".intercalate want
    if impl == m then "ok" else s!"DIFF model={m} impl={impl} ; SPEC read-sent-to-a-node-that-is-no-candidate-for-it impl={impl}"
  | "c14.scan", _st :: nmS :: _nr :: rest =>
    -- `Model.ScanWalk.scanAddrs`: SCAN walks over the masters the routing table lists, in address order, under every strategy
    match nmS.toNat? with
    | some nm =>
      let table : Option (List (Option Nat)) := match rest with
        | [] => some ((List.range nm).map some)
        | [own] => if own.length == 8 then some (own.toList.map fun ch => if ch == '-' then none else some (ch.toNat - 48)) else none
        | _ => none
      match table with
      | none => "bad-op"
      | some tb =>
        -- (with no slot known the fallback is the configured hosts, masters and replicas alike: not generated)
        let walk := ScanWalk.scanAddrs tb []
        let m := s!"targets={",".intercalate (walk.map fun i => s!"M{i}")} keys={walk.length}"
        let sp := if (impl.splitOn "R").length > 1 || (impl.splitOn "X").length > 1 then "SCAN-sent-to-a-node-that-is-not-a-master" else ""
        let d := if impl == m then "" else s!"DIFF model={m} impl={impl}"
        let ss := if sp == "" then "" else s!"SPEC {sp} impl={impl}"
        if d == "" && ss == "" then "ok" else d ++ (if d != "" && ss != "" then " ; " else "") ++ ss
    | none => "bad-op"
  | "c14.topo", [st, _a1, a2, _n] =>
    -- after the second refresh reads go to the replicas that follow the owner now (REPLICA; the master when it has none),
    -- or to the master or those replicas (BOTH); never to a node that follows another master
    let hasRep := a2.toList.contains '0'
    let allowed : List String :=
      if st == "R" then (if hasRep then ["R"] else ["M"])
      else (if hasRep then ["M", "R", "MR"] else ["M"])
    if impl.toList.contains 'X' then s!"SPEC read-sent-to-a-node-that-is-not-a-replica-of-the-owner impl={impl}"
    else if allowed.contains impl then "ok"
    else s!"DIFF model-allows={allowed} impl={impl}"
  | "c14.strat", phases =>
    -- `reads_only_where_the_strategy_permits`: the strategy in force is the one of the latest configuration
    -- update: MASTER → the owner only; REPLICA → its replica only (it has one); BOTH → either
    let got := impl.splitOn "|"
    let okPhase (s g : String) : Bool :=
      if s == "M" then g == "M" else if s == "R" then g == "R" else g == "M" || g == "R" || g == "MR"
    if got.length != phases.length then s!"DIFF phases impl={impl}"
    else if impl.toList.contains 'X' then s!"SPEC read-sent-to-a-node-that-is-not-a-replica-of-the-owner impl={impl}"
    else if (phases.zip got).all (fun (s, g) => okPhase s g) then "ok"
    else s!"DIFF model-allows-per-strategy impl={impl} ; SPEC read-sent-where-the-strategy-in-force-does-not-permit impl={impl}"
  | _, _ => "bad-op"

end SamVerif.Drive.C14
