import SamVerif.Drive.Common
import SamVerif.Model.Session
import SamVerif.Model.SessFlush
namespace SamVerif.Drive.C01
open SamVerif SamVerif.Drive

def bytesOf (s : String) : List UInt8 := s.toUTF8.toList

def keyOf (conn : Nat) (k : String) : List UInt8 := bytesOf s!"c{conn}-k{k}"

/-- CR and LF in an error line are replaced by spaces (resp.go newError) -/
def sanitize (b : List UInt8) : List UInt8 := b.map fun c => if c == 13 || c == 10 then 32 else c

/-- the result of one request: what the k-th reply has to be -/
def resultOf (conn : Nat) (tok : String) : Option String :=
  let c := tok.toList.headD ' '
  let body := (tok.drop 1).toString
  let get (k : String) : String := "b" ++ toHex (bytesOf "v:" ++ keyOf conn k)
  if c == 'g' then some (get body)
  else if c == 'a' then some ("b" ++ toHex (bytesOf "v:ASK-" ++ keyOf conn body))   -- served by the node the ASK points at
  else if c == 'e' then some ("e" ++ toHex (bytesOf "ERR no ERR-" ++ keyOf conn body))
  else if c == 's' then some ("s" ++ toHex (bytesOf "OK"))
  else if c == 'M' then some ("[" ++ ",".intercalate ((body.splitOn ".").map get) ++ "]")
  else if c == 'D' then some s!"i{(body.splitOn ".").length}"
  else if tok == "p" then some ("s" ++ toHex (bytesOf "PONG"))
  else if tok == "u" then some ("e" ++ toHex (bytesOf "ERR unsupported command 'nosuchcmd'"))
  else if c == 'n' then
    match parseHex body with
    | some name => some ("e" ++ toHex (sanitize (bytesOf "ERR unsupported command '" ++ name ++ bytesOf "'")))
    | none => none
  else none

def handle (kind : String) (args : List String) (impl : String) : String :=
  match kind, args with
  | "c01.pipe", conns :: _order :: _frag :: reqs =>
    match conns.toNat? with
    | none => "bad-op"
    | some n =>
      let per := (List.range n).map fun conn => (reqs.mapM (resultOf conn)).map (",".intercalate ·)
      match per.mapM id with
      | none => "bad-op"
      | some outs =>
        let want := " | ".intercalate outs
        if impl == want then "ok"
        else s!"DIFF model={want} impl={impl} ; SPEC replies-differ-from-results-in-request-order impl={impl}"
  | "c01.prefix", [_] =>
    -- `Props.C01f.blocked_writer_has_flushed`: the second request is not decoded yet, the queue is empty, the writer waits: the first
    -- reply has been flushed
    if impl == "early=1 all=2" then "ok" else s!"SPEC finished-replies-held-back-behind-an-unanswered-request impl={impl}"
  | "c01.half", [nS] =>
    -- every request read gets its reply, also when the client has finished its own direction after the last request
    match nS.toNat? with
    | some n => if impl == s!"replies={n}" then "ok" else s!"SPEC request-read-but-never-answered impl={impl}"
    | none => "bad-op"
  | "c01.held", [nS] =>
    -- `Model.SessFlush`: n+1 requests are queued, the first n are answered; the writer runs until it is blocked
    -- (`Props.C01f.blocked_writer_has_flushed`: nothing finished is left in its buffer), then the last one is answered
    match nS.toNat? with
    | some n =>
      let settle (w : SessFlush.W) : SessFlush.W :=
        (List.range (6 * (n + 2))).foldl (fun (w : SessFlush.W) _ =>
          match [SessFlush.Label.take, .look, .done, .encode].findSome? (fun l => SessFlush.step w l) with
          | some w' => w'
          | none => w) w
      let w0 : SessFlush.W := (List.range (n + 1)).foldl (fun w i => (SessFlush.step w (.enqueue i)).getD w) {}
      let w1 := (List.range n).foldl (fun w i => (SessFlush.step w (.complete i)).getD w) w0
      let w2 := settle w1
      let w3 := settle ((SessFlush.step w2 (.complete n)).getD w2)
      let m := s!"early={w2.sent.length} all={w3.sent.length}"
      if impl == m then "ok" else s!"DIFF model={m} impl={impl} ; SPEC finished-replies-held-back-behind-an-unanswered-request impl={impl}"
    | none => "bad-op"
  | "c01.client", _ =>
    if impl == "mismatches=0 unanswered=0" then "ok" else s!"SPEC reply-paired-with-wrong-request impl={impl}"
  | _, _ => "bad-op"

end SamVerif.Drive.C01
