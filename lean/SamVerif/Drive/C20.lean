import SamVerif.Drive.Common
import SamVerif.Model.Stats
namespace SamVerif.Drive.C20
open SamVerif SamVerif.Drive SamVerif.Stats

def stepOf (c : Char) : Step :=
  if c == 'o' then .reply else if c == 'm' then .moved else if c == 'n' then .movedDead
  else if c == 'a' then .ask else if c == 'A' then .askRefused else .fail

def parseReq (tok : String) : Option (Option Req) :=
  let (name, plans) := match tok.splitOn ":" with
    | [n] => (n, ([] : List (List Step)))
    | [n, p] => (n, (p.splitOn "/").map fun (s : String) => s.toList.map stepOf)
    | _ => ("?", [])
  match name with
  | "Q" => some none
  | "i" => some (some ⟨.invalid, []⟩)
  | "u" => some (some ⟨.unsupported, []⟩)
  | "p" => some (some ⟨.ping, []⟩)
  | "h" => some (some ⟨.bare, []⟩)
  | "g" => if plans.length == 1 then some (some ⟨.single cGet, plans⟩) else none
  | "s" => if plans.length == 1 then some (some ⟨.single cSet, plans⟩) else none
  | "M" => if plans.isEmpty then none else some (some ⟨.mget, plans⟩)
  | "W" => if plans.isEmpty then none else some (some ⟨.mset, plans⟩)
  | "D" => if plans.isEmpty then none else some (some ⟨.del, plans⟩)
  | _ => none

def showTri (t : Tri) : String := s!"{t.total},{t.ok},{t.bad}"

def showR (s : RState) : String :=
  let cmds := ";".intercalate ((List.range 6).map fun c => showTri (s.cmd c))
  let pend := if s.raws.isEmpty then "" else s!" pending={s.raws.length}"
  s!"ds={showTri s.ds} us={showTri s.us} moved={s.moved} cmd={cmds}{pend}"

/-- the property on what the implementation reported: every triple balances -/
def balancedText (impl : String) : Bool :=
  let tris (s : String) : List (List Nat) := (s.splitOn ";").map fun t => (t.splitOn ",").filterMap (·.toNat?)
  let field (k : String) : String :=
    match (words impl).find? (·.startsWith (k ++ "=")) with
    | some w => (w.drop (k.length + 1)).toString
    | none => ""
  let ok3 (l : List Nat) : Bool := match l with | [t, s, f] => t == s + f | _ => false
  (tris (field "ds")).all ok3 && (tris (field "us")).all ok3 && (tris (field "cmd")).all ok3

def parseCx (tok : String) (n : Nat) (hostOk dialOk : Bool) : Option (List CEv × Nat × Bool × Bool) :=
  let c := tok.toList.headD ' '
  if tok == "o" then some ([.accept n hostOk dialOk], n + 1, hostOk, dialOk)
  else if tok == "d" then some ([], n, hostOk, false)
  else if tok == "u" then some ([], n, hostOk, true)
  else if tok == "a" then some ([], n, true, dialOk)
  else if tok == "D" then some ([.drain], n, hostOk, dialOk)
  else if tok == "S" then some ([.stop], n, hostOk, dialOk)
  else if c == 'c' || c == 'b' then (tok.drop 1).toString.toNat?.map fun i => ([.finish i], n, hostOk, dialOk)
  else none

structure CxRun where
  s : CState
  n : Nat := 0
  hostOk : Bool := true
  dialOk : Bool := true
  listening : Bool := true

/-- one token of a connection history.  `r` (host removal) ends every established connection;
an open after StopListen/Stop is refused by the kernel and never reaches the listener. -/
def cxTok (r : CxRun) (tok : String) : Option CxRun :=
  if tok == "r" then
    some { r with s := crun r.s (r.s.ups.map CEv.finish), hostOk := false }
  else if tok == "o" && !r.listening then some { r with n := r.n + 1 }
  else match parseCx tok r.n r.hostOk r.dialOk with
    | none => none
    | some (evs, n, h, d) =>
      let s1 := crun r.s evs
      -- Stop closes every connection: all handlers return
      let s2 := if tok == "S" then crun s1 (s1.ups.map CEv.finish) else s1
      some { r with s := s2, n := n, hostOk := h, dialOk := d, listening := r.listening && tok != "D" && tok != "S" }

def cxRun (r : CxRun) : List String → Option CxRun
  | [] => some r
  | t :: ts => match cxTok r t with | some r' => cxRun r' ts | none => none

def showC (s : CState) : String :=
  s!"ds={s.ds.total},{s.ds.destroyed},{s.ds.active},{s.restricted} us={s.us.total},{s.us.destroyed},{s.us.active},{s.connFail}"

def cxBalanced (impl : String) : Bool :=
  let field (k : String) : List Int :=
    match (words impl).find? (·.startsWith (k ++ "=")) with
    | some w => ((w.drop (k.length + 1)).toString.splitOn ",").filterMap (·.toInt?)
    | none => []
  let ok4 (l : List Int) : Bool := match l with | [t, d, a, _] => t == d && a == 0 | _ => false
  ok4 (field "ds") && ok4 (field "us")

def handle (kind : String) (args : List String) (impl : String) : String :=
  match kind with
  | "c20.rq" =>
    match args.mapM parseReq with
    | none => "bad-op"
    | some script =>
      let st := rrun {} (evalScript false 0 script)
      let m := showR st
      let d := if impl == m then "" else s!"DIFF model={m} impl={impl}"
      let s := if balancedText impl && (impl.splitOn "pending").length == 1 then "" else s!"SPEC request-counters-unbalanced-at-quiescence impl={impl}"
      if d == "" && s == "" then "ok" else d ++ (if d != "" && s != "" then " ; " else "") ++ s
  | "c20.names" =>
    -- service A is quiescent: its gauges are zero and everything it opened is destroyed, whatever service B is doing
    if impl == "active=0 open=0 up-active=0 up-open=0" then "ok"
    else s!"SPEC quiescent-service-reports-open-connections impl={impl}"
  | "c20.cx" =>
    match args with
    | lim :: toks =>
      match lim.toNat? with
      | none => "bad-op"
      | some limit =>
        match cxRun { s := cinit limit } toks with
        | none => "bad-op"
        | some r =>
          -- the harness closes every connection at the end
          let fin := crun r.s ((r.s.ups ++ (r.s.reg.getD [])).map CEv.finish)
          let m := showC fin
          let d := if impl == m then "" else s!"DIFF model={m} impl={impl}"
          let s := if cxBalanced impl then "" else s!"SPEC connection-counters-unbalanced-at-quiescence impl={impl}"
          if d == "" && s == "" then "ok" else d ++ (if d != "" && s != "" then " ; " else "") ++ s
    | _ => "bad-op"
  | _ => "bad-op"

end SamVerif.Drive.C20
