import SamVerif.Drive.Common
import SamVerif.Model.HostSet
namespace SamVerif.Drive.C06
open SamVerif SamVerif.Drive SamVerif.HostSet

def nats (s : String) : Option (List Nat) := (s.splitOn ",").mapM (·.toNat?)
def showNats (l : List Nat) : String := ",".intercalate (l.map toString)

def handle (kind : String) (args : List String) (impl : String) : String :=
  match kind, args with
  | "c06.rr", [ns, ks] =>
    match ns.toNat?, ks.toNat? with
    | some n, some k =>
      let m := if n == 0 then ",".intercalate (List.replicate k "nil")
               else showNats ((List.range k).map fun j => rrPick j n)
      verdict impl m m
    | _, _ => "bad-op"
  | "c06.rand", [ns, rs] =>
    match ns.toNat?, nats rs with
    | some n, some rl => let m := showNats (rl.map fun r => randomPick r n); verdict impl m m
    | _, _ => "bad-op"
  | "c06.lc", [cs, ps] =>
    match nats cs, (ps.splitOn ",").mapM (fun p => match p.splitOn "." with
        | [a, b] => do let a ← a.toNat?; let b ← b.toNat?; pure (a, b)
        | _ => none) with
    | some conns, some pairs =>
      let m := showNats (pairs.map fun p => leastConnPick p.1 p.2 conns)
      -- spec: a member, and not the strictly busier of the two samples
      let sp := match nats impl with
        | some picks => if picks.length == pairs.length && (picks.zip pairs).all (fun (i, p) =>
              decide (i < conns.length) && (i == p.1 % conns.length || i == p.2 % conns.length) &&
              decide (conns.getD i 0 ≤ conns.getD (p.1 % conns.length) 0) && decide (conns.getD i 0 ≤ conns.getD (p.2 % conns.length) 0))
            then impl else "violates-least-connection"
        | none => "unparsable"
      verdict impl m sp
    | _, _ => "bad-op"
  | "c06.conc", [ns, gs, es] =>
    match ns.toNat?, gs.toNat?, es.toNat? with
    | some n, some g, some e =>
      -- exact fairness: every host gets total/n selections
      let m := showNats (List.replicate n (g * e / n))
      verdict impl m m
    | _, _, _ => "bad-op"
  | "c06.tcp", pol :: ns :: acts =>
    match ns.toNat? with
    | none => "bad-op"
    | some n =>
      -- state: members (indexes, ascending = address order), down flags, held connections per backend, rr counter
      let rec go (members : List Nat) (down : List Nat) (held : List Nat) (ctr : Nat) : List String → Option (List String)
        | [] => some []
        | a :: rest =>
          let c := a.toList.headD ' '
          let arg := (a.drop 1).toString
          if c == 'c' then
            if members.isEmpty then (go members down held ctr rest).map (fun r => "x" :: r) else
            let pick : Option (Nat × Nat) :=
              if pol == "L" then
                match arg.splitOn "." with
                | [r1, r2] => match r1.toNat?, r2.toNat? with
                  | some r1, some r2 =>
                    let conns := members.map fun m => held.count m
                    some (members.getD (leastConnPick r1 r2 conns) 0, ctr)
                  | _, _ => none
                | _ => none
              else some (members.getD (rrPick ctr members.length) 0, ctr + 1)
            match pick with
            | none => none
            | some (b, ctr') =>
              if down.contains b then (go members down held ctr' rest).map (fun r => "x" :: r)
              else (go members down (b :: held) ctr' rest).map (fun r => toString b :: r)
          else if a == "k" then go members down [] ctr rest
          else match arg.toNat? with
            | none => none
            | some i =>
              if i ≥ n then none else
              if c == 'd' then go members (if down.contains i then down else i :: down) held ctr rest
              else if c == 'u' then go members (down.filter (· != i)) held ctr rest
              else if c == 'a' then
                let ms := if members.contains i then members else (members.takeWhile (· < i)) ++ i :: members.dropWhile (· < i)
                go ms down held ctr rest
              else if c == 'r' then
                -- established connections to a removed host are closed (only if it was a member)
                let closed := if members.contains i then held.count i else 0
                let held' := if members.contains i then held.filter (· != i) else held
                (go (members.filter (· != i)) down held' ctr rest).map (fun r => s!"r{closed}" :: r)
              else none
      match go (List.range n) [] [] 0 acts with
      | some outs => let m := if outs.isEmpty then "-" else ",".intercalate outs; verdict impl m m
      | none => "bad-op"
  | _, _ => "bad-op"

end SamVerif.Drive.C06
