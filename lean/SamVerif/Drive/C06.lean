import SamVerif.Drive.Common
import SamVerif.Model.HostSet
namespace SamVerif.Drive.C06
open SamVerif SamVerif.Drive SamVerif.HostSet

def nats (s : String) : Option (List Nat) := (s.splitOn ",").mapM (·.toNat?)
def showNats (l : List Nat) : String := ",".intercalate (l.map toString)

def handle (kind : String) (args : List String) (impl : String) : String :=
  match kind, args with
  | "c06.rr", [ns, ks] =>
    match ns.toNat?, ks.toNat? with
    | some n, some k =>
      let m := if n == 0 then ",".intercalate (List.replicate k "nil")
               else showNats ((List.range k).map fun j => rrPick j n)
      verdict impl m m
    | _, _ => "bad-op"
  | "c06.rand", [ns, rs] =>
    match ns.toNat?, nats rs with
    | some n, some rl => let m := showNats (rl.map fun r => randomPick r n); verdict impl m m
    | _, _ => "bad-op"
  | "c06.lc", [cs, ps] =>
    match nats cs, (ps.splitOn ",").mapM (fun p => match p.splitOn "." with
        | [a, b] => do let a ← a.toNat?; let b ← b.toNat?; pure (a, b)
        | _ => none) with
    | some conns, some pairs =>
      let m := showNats (pairs.map fun p => leastConnPick p.1 p.2 conns)
      -- spec: a member, and not the strictly busier of the two samples
      let sp := match nats impl with
        | some picks => if picks.length == pairs.length && (picks.zip pairs).all (fun (i, p) =>
              decide (i < conns.length) && (i == p.1 % conns.length || i == p.2 % conns.length) &&
              decide (conns.getD i 0 ≤ conns.getD (p.1 % conns.length) 0) && decide (conns.getD i 0 ≤ conns.getD (p.2 % conns.length) 0))
            then impl else "violates-least-connection"
        | none => "unparsable"
      verdict impl m sp
    | _, _ => "bad-op"
  | "c06.conc", [ns, gs, es] =>
    match ns.toNat?, gs.toNat?, es.toNat? with
    | some n, some g, some e =>
      -- exact fairness: every host gets total/n selections
      let m := showNats (List.replicate n (g * e / n))
      verdict impl m m
    | _, _, _ => "bad-op"
  | _, _ => "bad-op"

end SamVerif.Drive.C06
