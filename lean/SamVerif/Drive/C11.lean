import SamVerif.Drive.Common
import SamVerif.Drive.C18
import SamVerif.Model.Parsers
namespace SamVerif.Drive.C11
open SamVerif SamVerif.Drive SamVerif.Resp SamVerif.Parsers

def isSpace (c : UInt8) : Bool := c == 32 || c == 9 || c == 10 || c == 11 || c == 12 || c == 13

/-- `strings.Fields` for ASCII white space -/
def fields (b : Bytes) : List Bytes :=
  (b.foldr (fun c (acc : List Bytes) =>
    if isSpace c then (match acc with | [] :: _ => acc | _ => [] :: acc)
    else match acc with | t :: ts => (c :: t) :: ts | [] => [[c]]) [[]]).filter (fun t => !t.isEmpty)

def render8 (b : Bytes) : String := "e" ++ toHex b

def specBad (impl : String) : String :=
  if impl.startsWith "crashed" then "process-crashed"
  else if impl.startsWith "timeout" then "wedged"
  else if impl.startsWith "panic" || impl.endsWith " panic" then "panic"
  else ""

def finish (impl model : String) (cmp : Bool) : String :=
  let d := if !cmp || impl == model then "" else s!"DIFF model={model} impl={impl}"
  let sp := specBad impl
  let s := if sp == "" then "" else s!"SPEC {sp} impl={impl}"
  if d == "" && s == "" then "ok" else d ++ (if d != "" && s != "" then " ; " else "") ++ s

def handle (kind : String) (args : List String) (impl : String) : String :=
  match kind, args with
  | "c11.deep", [k, lv] =>
    match lv.toNat? with
    | none => "bad-op"
    | some levels =>
      let m :=
        if levels ≤ 2000 then
          let unit : Bytes := if k == "b" then "*1048576\r\n".toUTF8.toList else "*1\r\n".toUTF8.toList
          let data := (List.replicate levels unit).flatten ++ ":1\r\n".toUTF8.toList
          match decodeStream 4096 data with | some _ => "ok" | none => "err"
        else "err"   -- beyond the nesting limit: rejected (decodeStream_depth)
      -- spec: nesting beyond the declared limit must be rejected, never crash
      let sp := if levels > maxArrayDepth + 1 && impl == "ok" then s!"SPEC nesting-beyond-limit-accepted impl={impl}" else ""
      let r := finish impl m true
      if sp == "" then r else (if r == "ok" then sp else r ++ " ; " ++ sp)
  | "c11.line", [k, ns] =>
    match ns.toNat? with
    | none => "bad-op"
    | some n =>
      let m :=
        if n ≤ 70000 then
          let pre : Bytes := if k == "s" then [43] else if k == "e" then [45] else []
          match decodeStream 4096 (pre ++ List.replicate n 97 ++ [13, 10]) with
          | some _ => s!"ok {n}" | none => "err"
        else "err"
      let sp := if n + 2 > maxLineLen && impl.startsWith "ok" then s!"SPEC line-beyond-limit-accepted impl={impl}" else ""
      let r := finish impl m true
      if sp == "" then r else (if r == "ok" then sp else r ++ " ; " ++ sp)
  | "c11.redir", [h] =>
    match parseHex h with
    | none => "bad-op"
    | some text =>
      let ascii := text.all (· < 128)
      let agree := match handleError text with
        | .reply | .clusterDown => impl == "replied " ++ render8 text
        | .movedTo _ | .askTo _ => impl == "resent" || impl.startsWith "replied e"
        | _ => false
      let d := if agree || !ascii then "" else s!"DIFF model-class impl={impl}"
      let sp := if impl == "pending" then "request-never-answered" else specBad impl
      let s := if sp == "" then "" else s!"SPEC {sp} impl={impl}"
      if d == "" && s == "" then "ok" else d ++ (if d != "" && s != "" then " ; " else "") ++ s
  | "c11.nodes", [h] =>
    match parseHex h with
    | none => "bad-op"
    | some text =>
      let ascii := text.all (· < 128)
      let lines := (splitOn 10 text).map fields
      let m := match parseClusterNodes lines with
        | .ok ms => s!"ok m={ms.length} r={(ms.map (·.2.2)).sum} s={(ms.map (·.2.1.length)).sum}"
        | .err => "err"
        | .panic => "panic"
      finish impl m ascii
  | "c11.reply", [_, shape, h] =>
    match parseHex h with
    | none => "bad-op"
    | some v =>
      -- a value that does not start with the whole six-byte header (magic, algorithm, CR LF) is not a frame:
      -- it must come back unchanged; whatever the value, the request must be answered and nothing may panic
      let hdr : Bytes := [40, 80, 36]
      let isFrame := v.length ≥ 6 && v.take 3 == hdr && (v.drop 4).take 2 == [13, 10]
      let plain := if shape == "b" then "replied b" ++ toHex v else "replied [b66,b" ++ toHex v ++ "]"
      let d := if !isFrame && impl != plain then s!"DIFF model={plain} impl={impl}" else ""
      let sp := if impl == "pending" then "request-never-answered" else specBad impl
      let s := if sp == "" then "" else s!"SPEC {sp} impl={impl}"
      if d == "" && s == "" then "ok" else d ++ (if d != "" && s != "" then " ; " else "") ++ s
  | "c11.scan", [v] =>
    -- same op as c18.step with 3 hosts and cursor "0"
    let r := C18.handle "c18.step" ["3", v, "30"] impl
    let sp := specBad impl
    if sp != "" then s!"SPEC {sp} impl={impl}" else r
  | "c11.null", [_, _, _] =>
    -- a null bulk string is not an argument: the request is answered with an error by the proxy and nothing reaches a node
    -- (a node closes the connection on "$-1" in a request — the connection every client shares)
    if impl == "rejected sent=0" then "ok" else s!"SPEC malformed-request-forwarded-to-a-backend impl={impl}"
  | "c11.cycle", [] =>
    -- the proxy keeps serving other connections (and can be stopped), whatever a backend's redirections say
    if impl == "other=served stop=ok" then "ok" else s!"SPEC other-connections-not-served-after-a-redirection-cycle impl={impl}"
  | "c11.session", [_] =>
    let sp := if impl.startsWith "first=" then (if impl.endsWith "second=pong" then "" else "other-connections-not-served") else
      (if specBad impl != "" then specBad impl else "session-wedged")
    if sp == "" then "ok" else s!"SPEC {sp} impl={impl}"
  | "c11.refresh", [_] =>
    let sp := specBad impl
    if sp == "" then "ok" else s!"SPEC {sp} impl={impl}"
  | _, _ => "bad-op"

end SamVerif.Drive.C11
