import SamVerif.Drive.Common
import SamVerif.Model.Client
import Std.Data.HashSet
namespace SamVerif.Drive.C02
open SamVerif SamVerif.Drive SamVerif.Client

/-- the model under a forced schedule: the transition system plus what the harness controls -/
structure X where
  s : Cl
  armS : Bool := false
  armW : Bool := false
  armT : Bool := false
  armR : Bool := false
  armD : Bool := false
  /-- requests the backend can see (encoded and flushed) / has answered / replies on their way to the reader -/
  unflushed : Nat := 0
  wire : Nat := 0
  beAnswered : Nat := 0
  inFlight : Nat := 0
  nreq : Nat := 0
  stopCalled : Bool := false
deriving Repr

def key (x : X) : String := toString (repr x)

/-- internal labels enabled under the armed parks -/
def succs (x : X) : List X :=
  let s := x.s
  let try1 (l : Label) (f : X → X := id) : List X :=
    match step s l with
    | some s' => [f { x with s := s' }]
    | none => []
  -- a Send waits for its turn (one at a time goes on to the queue); the pause point `client.send.checked` lies behind the turn
  let turns := s.waiting.flatMap fun id => try1 (.turnTake id) ++ try1 (.turnQuit id)
  let senders := if x.armS then [] else s.locked.flatMap fun id => try1 (.sendEnq id) ++ try1 (.sendQuit id)
  let enc := if x.armT then [] else match s.writer with
    | .hold _ =>
      (try1 .wEncodeOk fun y =>
        if s.pending.isEmpty then { y with wire := y.wire + y.unflushed + 1, unflushed := 0 }
        else { y with unflushed := y.unflushed + 1 })
      ++ (if s.connOk then [] else try1 .wEncodeFail)
    | _ => []
  let hand := if x.armW then [] else try1 .wHandoff ++ try1 .wHandoffQuit
  let rd := (if x.inFlight > 0 then try1 .rDecodeOk (fun y => { y with inFlight := y.inFlight - 1 }) else [])
    ++ (if s.connOk then [] else try1 .rDecodeErr)
  let pair := if x.armR then [] else try1 .rPair ++ try1 .rPairQuit
  let drain := if x.armD then [] else try1 .sDrainPending ++ try1 .sDrainProcessing ++ try1 .sDrainDone
  turns ++ senders ++ try1 .wTake ++ try1 .wQuitTop ++ enc ++ hand ++ rd ++ pair
    ++ try1 .sReaderGone ++ try1 .sWriterGone ++ try1 .sLock ++ drain

/-- all states in which nothing internal is enabled any more, reachable from `todo` -/
partial def settle (todo : List X) (seen : Std.HashSet String) (terms : List X) : List X :=
  match todo with
  | [] => terms
  | x :: rest =>
    let k := key x
    if seen.contains k then settle rest seen terms
    else
      let seen := seen.insert k
      match succs x with
      | [] => settle rest seen (x :: terms)
      | ys => settle (ys ++ rest) seen terms

def settleAll (xs : List X) : List X := settle xs {} []

def applyTok (x : X) (tok : String) : Option X :=
  let c := tok.toList.headD ' '
  let arg := (tok.drop 1).toString
  if tok == "s" then
    (step x.s (.sendBegin x.nreq)).map fun s' => { x with s := s', nreq := x.nreq + 1 }
  else if c == 'P' then
    match arg with
    | "s" => some { x with armS := true } | "w" => some { x with armW := true } | "t" => some { x with armT := true }
    | "r" => some { x with armR := true } | "d" => some { x with armD := true }
    | _ => none
  else if c == 'R' then
    match arg with
    | "s" => some { x with armS := false } | "w" => some { x with armW := false } | "t" => some { x with armT := false }
    | "r" => some { x with armR := false } | "d" => some { x with armD := false }
    | _ => none
  else if c == 'b' then
    arg.toNat?.map fun k =>
      let n := min k (x.wire - x.beAnswered)
      { x with beAnswered := x.beAnswered + n, inFlight := x.inFlight + n }
  else if tok == "x" then some { x with inFlight := x.inFlight + 1 }
  else if tok == "c" || tok == "z" then (step x.s .connBreak).map fun s' => { x with s := s' }
  else if tok == "K" then
    if x.stopCalled then some x else (step x.s .stop).map fun s' => { x with s := s', stopCalled := true }
  else none

def outcome (x : X) : String :=
  if x.nreq == 0 then "." else
  String.ofList <| (List.range x.nreq).map fun id =>
    match x.s.answered.filter (·.1 == id) with
    | [] => '-'
    | [(_, .reply)] => 'r'
    | [(_, .error)] => 'e'
    | _ => '2'

def dedup (l : List String) : List String := l.foldl (fun acc s => if acc.contains s then acc else acc ++ [s]) []

/-- every result the model can produce for a script -/
def results (toks : List String) : Option (List String) := do
  -- the connection's own READONLY request is sent, written, answered and paired before the script starts
  let x0 : X := { s := { cap := 1024 } }
  let mut xs := [x0]
  for t in toks do
    let ys ← xs.mapM (applyTok · t)
    xs := settleAll ys
  -- everything is released
  let rel := xs.map fun x => { x with armS := false, armW := false, armT := false, armR := false, armD := false }
  let outs := settleAll rel
  let res := outs.flatMap fun x =>
    let out := outcome x
    let y : X := match step x.s .stop with | some s' => { x with s := s' } | none => x
    (settleAll [y]).map fun z =>
      s!"out={out} final={outcome z} stop={if z.s.done then "ok" else "hangs"}"
  pure (dedup res)

def specOk (impl : String) : Bool :=
  let field (k : String) : String :=
    match (words impl).find? (·.startsWith (k ++ "=")) with
    | some w => (w.drop (k.length + 1)).toString
    | none => "?"
  let fin := field "final"
  !(fin.toList.contains '-') && !(fin.toList.contains '2') && fin != "?" && field "stop" == "ok"

def runOn (toks : List String) (impl : String) : String :=
  match results toks with
  | none => "bad-op"
  | some rs =>
    let d := if rs.contains impl then "" else s!"DIFF model-allows={rs} impl={impl}"
    let s := if specOk impl then "" else s!"SPEC request-not-answered-exactly-once-or-stop-hangs impl={impl}"
    if d == "" && s == "" then "ok" else d ++ (if d != "" && s != "" then " ; " else "") ++ s

def handle (kind : String) (args : List String) (impl : String) : String :=
  match kind, args with
  | "c02.run", toks => runOn toks impl
  | "c02.rep", _ :: toks =>
    if (impl.splitOn "mixed: ").length > 1 then
      -- different outcomes of the same schedule: each must be allowed
      let parts := ((impl.splitOn "mixed: ").getD 1 "").splitOn " / "
      let vs := parts.map fun p => runOn toks p
      match vs.find? (· != "ok") with | some v => v | none => "ok"
    else runOn toks impl
  | "c02.flt", toks =>
    -- the model's own run of this script: every request queued, then the writer takes them one by one; a banned command is
    -- answered by the filter (`wFilterStop`), the others are encoded and handed over.  `nothing_left_in_the_write_buffer`:
    -- at the end the buffer is empty, so the backend has received every request that was encoded and answers it.
    let n := toks.length
    let queue : List Label := (List.range n).flatMap fun i => [.sendBegin i, .turnTake i, .sendEnq i]
    let writer : List Label := toks.flatMap fun tk => if tk == "a" then [.wTake, .wFilterStop] else [.wTake, .wEncodeOk, .wHandoff]
    match run ({ cap := 1024 } : Cl) (queue ++ writer) with
    | none => "bad-op"
    | some s =>
      -- (+1: every new backend connection starts with READONLY, queued before anything else)
      let sentToBackend := (toks.filter (· != "a")).length + 1
      let m := if s.unflushed.isEmpty then s!"answered={n}/{n} backend={sentToBackend}"
               else s!"answered={n - s.unflushed.length}/{n} backend={sentToBackend - s.unflushed.length}"
      let d := if impl == m then "" else s!"DIFF model={m} impl={impl}"
      let sp := if impl.startsWith s!"answered={n}/{n} " then "" else s!"SPEC request-not-answered-although-the-backend-is-up impl={impl}"
      if d == "" && sp == "" then "ok" else d ++ (if d != "" && sp != "" then " ; " else "") ++ sp
  | "c02.multi", _ =>
    if impl == "once" then "ok" else s!"SPEC request-not-answered-exactly-once-or-stop-hangs impl={impl}"
  | "c02.stress", _ =>
    if impl == "lost=0 twice=0 stop=ok" then "ok" else s!"SPEC request-not-answered-exactly-once-or-stop-hangs impl={impl}"
  | _, _ => "bad-op"

end SamVerif.Drive.C02
