import SamVerif.Drive.Common
import SamVerif.Gen.Crc
import SamVerif.Model.Upstream
/-
The executable specification behind the cluster script language (C03, C04, C07): a single
Redis server's semantics for the supported commands, the cluster's layout and migration state,
and which node a request reaches first according to the proxy's slot table.
-/
namespace SamVerif.Drive.Cluster
open SamVerif SamVerif.Drive

abbrev Bytes := List UInt8

def bytesOf (s : String) : Bytes := s.toUTF8.toList

def keyOf (id : String) : Option Bytes :=
  if id.startsWith "x" then parseHex (id.drop 1).toString else some (bytesOf ("key:" ++ id))

/-! ### one Redis server -/

abbrev Store := List (Bytes × Bytes)

def sget (st : Store) (k : Bytes) : Option Bytes := (st.find? (·.1 == k)).map (·.2)
def sdel (st : Store) (k : Bytes) : Store := st.filter (·.1 != k)
def sset (st : Store) (k v : Bytes) : Store := (sdel st k) ++ [(k, v)]

inductive Reply
  | ok | nil | int (i : Int) | bulk (b : Bytes) | err (b : Bytes) | arr (l : List Reply)
  /-- an error produced by the proxy or the cluster machinery, by class -/
  | cls (c : String)
deriving Repr, BEq, Inhabited

def hex4 (n : Nat) : String :=
  String.ofList [hexDigit (n / 4096 % 16), hexDigit (n / 256 % 16), hexDigit (n / 16 % 16), hexDigit (n % 16)]

/-- values longer than 256 bytes are shown as length and CRC16 -/
def showBytes (b : Bytes) : String :=
  if b.length > 256 then s!"B{b.length}.{hex4 (SamVerif.Gen.Crc.crc16 b).toNat}" else toHex b

partial def render : Reply → String
  | .ok => "s" ++ toHex (bytesOf "OK")
  | .nil => "n"
  | .int i => s!"i{i}"
  | .bulk b => if b.length > 256 then showBytes b else "b" ++ toHex b
  | .err b => "e" ++ toHex b
  | .arr l => "[" ++ ",".intercalate (l.map render) ++ "]"
  | .cls c => "E" ++ c

/-- decimal integer as strconv.ParseInt reads it: optional sign, at least one digit, nothing else -/
def parseInt (b : Bytes) : Option Int :=
  let digits (l : Bytes) : Option Nat :=
    if l.isEmpty || !(l.all fun c => 48 ≤ c && c ≤ 57) then none
    else some (l.foldl (fun a c => a * 10 + (c.toNat - 48)) 0)
  match b with
  | 45 :: rest => (digits rest).map fun n => -(n : Int)
  | 43 :: rest => (digits rest).map fun n => (n : Int)
  | _ => (digits b).map fun n => (n : Int)

/-- single-key commands -/
def exec1 (st : Store) (cmd : String) (k : Bytes) (v : Bytes) : Store × Reply :=
  match cmd with
  | "get" => (st, match sget st k with | some x => .bulk x | none => .nil)
  | "set" => (sset st k v, .ok)
  | "setnx" => (match sget st k with | some _ => (st, .int 0) | none => (sset st k v, .int 1))
  | "getset" => (sset st k v, match sget st k with | some x => .bulk x | none => .nil)
  | "append" => let nv := (sget st k).getD [] ++ v; (sset st k nv, .int nv.length)
  | "strlen" => (st, .int ((sget st k).getD []).length)
  | "incr" =>
    match sget st k with
    | none => (sset st k (bytesOf "1"), .int 1)
    | some x =>
      match parseInt x with
      | some i =>
        if i == 9223372036854775807 then (st, .err (bytesOf "ERR increment or decrement would overflow"))
        else if i > 9223372036854775807 || i < -9223372036854775808 then (st, .err (bytesOf "ERR value is not an integer or out of range"))
        else (sset st k (bytesOf (toString (i + 1))), .int (i + 1))
      | none => (st, .err (bytesOf "ERR value is not an integer or out of range"))
  | "del" => (match sget st k with | some _ => (sdel st k, .int 1) | none => (st, .int 0))
  | "exists" => (st, .int (if (sget st k).isSome then 1 else 0))
  | _ => (st, .err (bytesOf "ERR"))

/-! ### the cluster and the proxy's view of it -/

structure Cl where
  nodes : Nat
  seeds : Nat := 0                        -- the processor's configured hosts are nodes 0 … seeds-1
  store : Store := []
  owner : Nat → Nat                       -- true layout
  table : Nat → Nat                       -- the proxy's slot table
  up : Nat → Bool := fun _ => true
  migr : List (Nat × Nat × Nat) := []     -- slot, source, target
  movedKeys : List Bytes := []            -- keys of migrating slots already on the target
  repl : List (Nat × Nat) := []           -- replica, master
  staleAddr : List Nat := []              -- nodes that restarted on a new address the proxy's table does not know yet
  seedGone : List Nat := []               -- nodes whose configured (seed) address is gone for good: the host set never learns the new one
  beliefs : List (Nat × Nat × Nat) := []  -- node, slot, the node it wrongly believes to own the slot
  armed : Bool := false                   -- a slot refresh has been triggered
  /-- positions (command indices) at which redirections must be zero: after a settled refresh -/
  settled : Bool := true

def slotOf (k : Bytes) : Nat := SamVerif.Gen.Crc.slotOf k

def updF {α} (f : Nat → α) (k : Nat) (v : α) : Nat → α := fun x => if x == k then v else f x

def evenOwner (masters : Nat) : Nat → Nat := fun s =>
  let per := 16384 / masters
  let o := s / per
  if o >= masters then masters - 1 else o

/-- where a keyed single-key command ends up and how many redirections it takes, following the
nodes' answers hop by hop as the proxy does; `none`: a node on the way cannot be reached.
The third component: was a slot refresh triggered (a redirection or a failed connect)? -/
def routeFrom (c : Cl) (s : Nat) (k : Bytes) (present : Bool) : Nat → Nat → Bool → Nat → Bool → Option Nat × Nat × Bool
  | 0, _, _, hops, _ => (none, hops, true)
  | fuel + 1, node, asking, hops, viaTable =>
    if !c.up node || (viaTable && c.staleAddr.contains node) then (none, hops, true) else
    -- what the node answers is `Model.Upstream.nodeAnswer` (the subject of C04's theorem) on the slot's true state
    let owner := c.owner s
    let t : SamVerif.Upstream.Truth :=
      { owner := owner, target := (c.migr.find? (fun m => m.1 == s && m.2.1 == owner)).map (·.2.2) }
    let onOwner := present && !c.movedKeys.contains k
    match SamVerif.Upstream.nodeAnswer t node onOwner asking with
    | .serve => (some node, hops, hops > 0)
    | .ask dst => routeFrom c s k present fuel dst true (hops + 1) false
    | .moved n =>
      -- a node with a lagging view names the node it believes in
      let to := match c.beliefs.find? (fun b => b.1 == node && b.2.1 == s) with | some b => b.2.2 | none => n
      routeFrom c s k present fuel to false (hops + 1) false

def route (c : Cl) (k : Bytes) (present : Bool) : Option Nat × Nat × Bool :=
  let s := slotOf k
  routeFrom c s k present 8 (c.table s) false 0 true

structure Out where
  replies : List String := []
  redirs : List Nat := []
  /-- per command: were all the nodes that own its keys reachable? (then no error is justified) -/
  reachable : List Bool := []
  /-- per command: must its redirection count be zero? -/
  mustBeZero : List Bool := []

def doKeyed (c : Cl) (cmd : String) (k v : Bytes) : Cl × Reply × Nat :=
  let present := (sget c.store k).isSome
  match route c k present with
  | (none, hops, red) => ({ c with armed := c.armed || red }, .cls "unreachable", hops)
  | (some _, hops, red) =>
    let (st, r) := exec1 c.store cmd k v
    -- a write to a key of a migrating slot that is absent on the source lands on the target
    let s := slotOf k
    let moved := match c.migr.find? (·.1 == s) with
      | some _ => if !present && (sget st k).isSome && !c.movedKeys.contains k then k :: c.movedKeys else c.movedKeys
      | none => c.movedKeys
    ({ c with store := st, armed := c.armed || red, movedKeys := moved }, r, hops)

def refresh (c : Cl) : Cl :=
  -- a refresh succeeds when some seed/known node is reachable; the table becomes the layout
  -- CLUSTER NODES is asked of a configured host: one of them has to be reachable at the address the proxy knows
  -- (the slot table learns new addresses from CLUSTER NODES, the configured host set does not)
  if c.armed && (List.range c.seeds).any (fun i => c.up i && !c.seedGone.contains i) then
    { c with table := c.owner, armed := false, settled := true, staleAddr := [] }
  else c

/-- generated values: byte i is (i*31 + seed + i/251) mod 256 -/
def pattern (n seed : Nat) : Bytes := (List.range n).map fun i => UInt8.ofNat ((i * 31 + seed + i / 251) % 256)

/-- the layout formula of `L<seed>` (64-bit wrap-around arithmetic) -/
def mix (seed i : Nat) : Nat := (((seed + 1) * (i + 7) * 2654435761 + i * 40503) % 2 ^ 64) / 128

def scattered (seed masters : Nat) : Nat → Nat := fun s => mix seed (s / 256) % masters

def parseKV (s : String) : Option (Bytes × Bytes) :=
  match s.splitOn ":" with
  | [k, v] => do let kb ← keyOf k; let vb ← parseHex v; pure (kb, vb)
  | _ => none

def stepTok (c : Cl) (o : Out) (tok : String) : Option (Cl × Out) :=
  let ch := tok.toList.headD ' '
  let body := (tok.drop 1).toString
  let ownersUp (ks : List Bytes) : Bool := ks.all fun k =>
    let s := slotOf k
    c.up (c.owner s) && (match c.migr.find? (·.1 == s) with | some (_, _, dst) => c.up dst | none => true)
  let emitK (ks : List Bytes) (c' : Cl) (r : Reply) (hops : Nat) : Option (Cl × Out) :=
    -- a refresh triggered by this command has finished before the next one (the harness waits for it)
    let c2 := refresh c'
    let o2 : Out := { o with replies := o.replies ++ [render r], redirs := o.redirs ++ [hops],
                             mustBeZero := o.mustBeZero ++ [c.settled && !c.armed], reachable := o.reachable ++ [ownersUp ks] }
    some (c2, o2)
  let single (cmd : String) : Option (Cl × Out) := do
    let k ← keyOf body
    let (c', r, h) := doKeyed c cmd k []
    emitK [k] c' r h
  let withVal (cmd : String) : Option (Cl × Out) := do
    let (k, v) ← parseKV body
    let (c', r, h) := doKeyed c cmd k v
    emitK [k] c' r h
  if ch == 'g' then single "get"
  else if ch == 'l' then single "strlen"
  else if ch == 'i' then single "incr"
  else if ch == 's' then withVal "set"
  else if ch == 'n' then withVal "setnx"
  else if ch == 't' then withVal "getset"
  else if ch == 'a' then withVal "append"
  else if ch == 'b' then
    match body.splitOn ":" with
    | [k, n, sd] => do
      let kb ← keyOf k; let len ← n.toNat?; let seed ← sd.toNat?
      let (c', r, h) := doKeyed c "set" kb (pattern len seed)
      emitK [kb] c' r h
    | _ => none
  else if ch == 'd' || ch == 'e' then do
    let ks ← (body.splitOn ".").mapM keyOf
    let (c', rs, h) := ks.foldl (fun (acc : Cl × List Reply × Nat) k =>
      let (c1, r, h1) := doKeyed acc.1 (if ch == 'd' then "del" else "exists") k []
      (c1, acc.2.1 ++ [r], acc.2.2 + h1)) (c, [], 0)
    let bad := rs.filter fun r => match r with | .int _ => false | _ => true
    let total := rs.foldl (fun a r => match r with | .int i => a + i | _ => a) (0 : Int)
    emitK ks c' (if bad.isEmpty then .int total else .err (bytesOf s!"finished with {bad.length} error(s)")) h
  else if ch == 'm' then do
    let ks ← (body.splitOn ".").mapM keyOf
    let (c', rs, h) := ks.foldl (fun (acc : Cl × List Reply × Nat) k =>
      let (c1, r, h1) := doKeyed acc.1 "get" k []
      (c1, acc.2.1 ++ [r], acc.2.2 + h1)) (c, [], 0)
    emitK ks c' (.arr rs) h
  else if ch == 'M' then do
    let kvs ← (body.splitOn ".").mapM parseKV
    let (c', bad, h) := kvs.foldl (fun (acc : Cl × Nat × Nat) kv =>
      let (c1, r, h1) := doKeyed acc.1 "set" kv.1 kv.2
      (c1, acc.2.1 + (match r with | .ok => 0 | _ => 1), acc.2.2 + h1)) (c, 0, 0)
    emitK (kvs.map (·.1)) c' (if bad == 0 then .ok else .err (bytesOf s!"finished with {bad} error(s)")) h
  else if ch == 'Q' then body.toNat?.map fun _ => (c, o)   -- the node freezes (keeps its connections, answers nothing): scripts do not address it afterwards
  else if ch == 'X' || ch == 'H' then body.toNat?.map fun n => ({ c with up := updF c.up n false, settled := false }, o)   -- H: connects time out instead of being refused
  else if ch == 'U' then body.toNat?.map fun n => ({ c with up := updF c.up n true }, o)
  else if ch == 'Z' then body.toNat?.map fun _ => (c, o)
  else if ch == 'A' then body.toNat?.map fun n => ({ c with staleAddr := n :: c.staleAddr, seedGone := n :: c.seedGone, settled := false }, o)
  else if ch == 'Y' then
    match body.splitOn ":" with
    | [k, n, m] => do
      let kb ← keyOf k; let nd ← n.toNat?; let md ← m.toNat?
      pure ({ c with beliefs := (nd, slotOf kb, md) :: c.beliefs }, o)
    | _ => none
  else if ch == 'D' || tok == "{" || tok == "}" then some (c, o)
  else if ch == 'O' then
    match body.splitOn ":" with
    | [k, n] => do
      let kb ← keyOf k; let nd ← n.toNat?
      let s := slotOf kb
      -- a migration of the slot that was under way is over with this: every key of the slot is on the new owner
      pure ({ c with owner := updF c.owner s nd, migr := c.migr.filter (·.1 != s),
                     movedKeys := c.movedKeys.filter (fun k => slotOf k != s), settled := false }, o)
    | _ => none
  else if ch == 'G' then
    match body.splitOn ":" with
    | [k, n] => do
      let kb ← keyOf k; let nd ← n.toNat?
      let s := slotOf kb
      if c.owner s == nd || c.migr.any (·.1 == s) then pure (c, o)     -- a slot that is already migrating is left alone
      else pure ({ c with migr := (s, c.owner s, nd) :: c.migr, settled := false }, o)
    | _ => none
  else if ch == 'V' then do
    let kb ← keyOf body
    let s := slotOf kb
    if (c.migr.any (·.1 == s)) && (sget c.store kb).isSome && !c.movedKeys.contains kb
    then pure ({ c with movedKeys := kb :: c.movedKeys }, o) else pure (c, o)
  else if ch == 'N' then do
    let kb ← keyOf body
    let s := slotOf kb
    match c.migr.find? (·.1 == s) with
    | some (_, _, dst) =>
      pure ({ c with owner := updF c.owner s dst, migr := c.migr.filter (·.1 != s),
                     movedKeys := c.movedKeys.filter (fun k => slotOf k != s), settled := false }, o)
    | none => pure (c, o)
  else if ch == 'P' then
    match body.splitOn ":" with
    | [r, m] => do let rn ← r.toNat?; let mn ← m.toNat?; pure ({ c with repl := (rn, mn) :: c.repl }, o)
    | _ => none
  else if ch == 'F' then do
    let r ← body.toNat?
    match c.repl.find? (·.1 == r) with
    | some (_, m) =>
      let sw (x : Nat) : Nat := if x == m then r else x
      pure ({ c with owner := fun s => if c.owner s == m then r else c.owner s, up := updF c.up m false,
                     migr := c.migr.map (fun (s, a, b) => (s, sw a, sw b)),
                     repl := c.repl.filter (·.1 != r), settled := false }, o)
    | none => pure (c, o)
  else if tok == "W" then some (refresh c, o)
  else if tok == "C" then some (c, o)
  else none

def runToks (c : Cl) (o : Out) : List String → Option (Cl × Out)
  | [] => some (c, o)
  | t :: ts => match stepTok c o t with | some (c', o') => runToks c' o' ts | none => none

def sortStrs (l : List String) : List String := (l.toArray.qsort (· < ·)).toList

def dump (st : Store) : String :=
  ";".intercalate (sortStrs (st.map fun kv => toHex kv.1 ++ "=" ++ showBytes kv.2))

structure Parsed where
  replies : List String
  redirs : List Nat
  data : String

def parseImpl (impl : String) : Option Parsed :=
  match impl.splitOn " | " with
  | [a, b, c] =>
    some { replies := if a == "-" then [] else a.splitOn ",",
           redirs := ((b.drop 2).toString.splitOn ",").filterMap (·.toNat?),
           data := (c.drop 5).toString }
  | _ => none

/-- replies are compared up to the class of proxy-made errors: the model says `Eunreachable` where the
implementation reports how exactly it failed to reach the node -/
def sameReply (model impl : String) : Bool :=
  let norm (s : String) : String :=
    ["Edial", "Eexit", "Eio", "Eupstream"].foldl (fun acc c => acc.replace c "Eunreachable") s
  model == norm impl

def splitTop (s : String) : List String :=
  -- split a reply list at top-level commas (arrays contain commas)
  let rec go (cs : List Char) (depth : Nat) (cur : List Char) (acc : List String) : List String :=
    match cs with
    | [] => (String.ofList cur.reverse :: acc).reverse
    | c :: rest =>
      if c == '[' then go rest (depth + 1) (c :: cur) acc
      else if c == ']' then go rest (depth - 1) (c :: cur) acc
      else if c == ',' && depth == 0 then go rest depth [] (String.ofList cur.reverse :: acc)
      else go rest depth (c :: cur) acc
  go s.toList 0 [] []

structure Verdict where
  diff : String := ""
  /-- the facts the three properties need about the run -/
  model : Out := {}
  final : Option Cl := none
  impl : Option Parsed := none

def evaluate (args : List String) (impl : String) : Option Verdict :=
  match args with
  | ns :: ms :: toks => do
    let n ← ns.toNat?
    let m ← ms.toNat?
    let toks := match toks with
      | t :: rest => if t.startsWith "T" then rest else toks
      | [] => toks
    let (lay, toks) := match toks with
      | t :: rest => if t.startsWith "L" then (((t.drop 1).toString.toNat?).map fun sd => scattered sd m, rest) else (some (evenOwner m), toks)
      | [] => (some (evenOwner m), toks)
    let lay ← lay
    let c0 : Cl := { nodes := n, seeds := m, owner := lay, table := lay }
    let (c, o) ← runToks c0 {} toks
    let body := (impl.splitOn " | ").headD ""
    let p ← parseImpl impl
    let implReplies := if body == "-" then [] else splitTop body
    let okReplies := implReplies.length == o.replies.length &&
      (o.replies.zip implReplies).all fun (a, b) => sameReply a b
    let okData := p.data == dump c.store
    let want := s!"{",".intercalate o.replies} | data={dump c.store}"
    let d := if okReplies && okData then "" else s!"DIFF model={want} impl={impl}"
    pure { diff := d, model := o, final := some c, impl := some { p with replies := implReplies } }
  | _ => none

end SamVerif.Drive.Cluster
