import SamVerif.Drive.Common
import SamVerif.Model.Resp
namespace SamVerif.Drive.C10
open SamVerif SamVerif.Drive SamVerif.Resp

/-- take characters up to `,` or `]` -/
def tokenSplit : List Char → List Char × List Char
  | [] => ([], [])
  | c :: rest => if c == ',' || c == ']' then ([], c :: rest) else
    let (t, r) := tokenSplit rest; (c :: t, r)

/-- parser for the canonical value syntax (`render`) -/
def parseValue : Nat → List Char → Option (Resp × List Char)
  | 0, _ => none
  | fuel + 1, cs =>
    match cs with
    | [] => none
    | 'i' :: rest =>
      let (t, r) := tokenSplit rest
      (String.ofList t).toInt?.map (fun n => (.int n, r))
    | 's' :: rest => let (t, r) := tokenSplit rest; (parseHex (String.ofList t)).map (fun b => (.simple b, r))
    | 'e' :: rest => let (t, r) := tokenSplit rest; (parseHex (String.ofList t)).map (fun b => (.err b, r))
    | 'b' :: rest => let (t, r) := tokenSplit rest; (parseHex (String.ofList t)).map (fun b => (.bulk (some b), r))
    | 'n' :: rest => some (.bulk none, rest)
    | 'N' :: rest => some (.arr none, rest)
    | '[' :: ']' :: rest => some (.arr (some []), rest)
    | '[' :: rest =>
      let rec items (k : Nat) (cs : List Char) (acc : List Resp) : Option (List Resp × List Char) :=
        match k with
        | 0 => none
        | k + 1 =>
          match parseValue fuel cs with
          | none => none
          | some (v, r) =>
            match r with
            | ',' :: r' => items k r' (v :: acc)
            | ']' :: r' => some ((v :: acc).reverse, r')
            | _ => none
      (items (cs.length + 1) rest []).map (fun (vs, r) => (.arr (some vs), r))
    | _ => none

def parseValueStr (s : String) : Option Resp :=
  match parseValue (s.length + 1) s.toList with
  | some (v, []) => some v
  | _ => none

def renderMsgs (ms : List Resp) : String :=
  if ms.isEmpty then "-" else ";".intercalate (ms.map render)

def handle (kind0 : String) (args : List String) (impl : String) : String :=
  -- c10.dece: the last bytes arrive together with io.EOF; for the reader's user that is the same stream
  let kind := if kind0 == "c10.dece" then "c10.dec" else kind0
  match kind, args with
  | "c10.dec", szs :: chunkHex =>
    match szs.toNat?, chunkHex.mapM parseHex with
    | some sz, some chunks =>
      let chunks := chunks.filter (fun c => !c.isEmpty)
      let total := (chunks.map List.length).sum
      let rd : Reader := { size := sz, win := [], chunks := chunks, err := false }
      let m := (decodeAllReader (total + 2) rd).1
      let sp := (decodeAllStream sz (total + 2) chunks.flatten).1
      verdict impl (renderMsgs m) (renderMsgs sp)
    | _, _ => "bad-op"
  | "c10.enc", [v] =>
    match parseValueStr v with
    | some v => let e := hexOf (encode v); verdict impl e e
    | none => "bad-op"
  | "c10.btoi", [h] =>
    match parseHex h with
    | some b =>
      let m := match parseInt64 b with | some n => s!"ok {n}" | none => "err"
      verdict impl m m
    | none => "bad-op"
  | "c10.itoa", [n] =>
    match n.toInt? with
    | some i => let m := hexOf (itoa i); verdict impl m m
    | none => "bad-op"
  | _, _ => "bad-op"

end SamVerif.Drive.C10
