import SamVerif.Drive.Common
import SamVerif.Model.HostSet
namespace SamVerif.Drive.C15
open SamVerif SamVerif.Drive SamVerif.HostSet

def parseObjs (s : String) : Option (List Obj) :=
  if s == "-" || s == "" then some [] else
  (s.splitOn ",").mapM fun e =>
    match e.splitOn "." with
    | [i, rest] =>
      let k := rest.toList.getLast?.getD ' '
      let a := (rest.dropEnd 1).toString
      match i.toNat?, a.toNat? with
      | some i, some a => if k == 'm' || k == 'b' then some { id := i, addr := a, main := k == 'm' } else none
      | _, _ => none
    | _ => none

def showH (l : List (Nat × Nat)) : String :=
  "H[" ++ ",".intercalate (l.map fun p => s!"{p.1}#{p.2}") ++ "]"

/-- run the op tokens; collects (model output, spec output) per op and the ids seen -/
def runOps : State → List Nat → List Nat → List String → Option (List String × List String × State × List Nat)
  | s, ids, pend, [] => if pend.isEmpty then some ([], [], s, ids) else none   -- a mark still in flight at the end
  | s, ids, pend, tok :: rest =>
    let c := tok.toList.headD ' '
    let arg := (tok.drop 1).toString
    let step : Option (State × String × List Nat × List Nat) :=
      if c == 'a' || c == 'r' || c == 'p' then
        match parseObjs arg with
        | none => none
        | some os =>
          -- an id seen before denotes the same object: take its recorded attributes
          let os := os.map fun o => match s.reg o.id with
            | some (a, m) => { o with addr := a, main := m }
            | none => o
          let ids' := ids ++ (os.map (·.id))
          -- every object mentioned is registered (it exists from now on)
          let sReg := os.foldl (fun (st : State) o => match st.reg o.id with
            | some _ => st
            | none => { st with reg := upd st.reg o.id (some (o.addr, o.main)) }) s
          if c == 'a' then some (add sReg os, "", ids', pend)
          else if c == 'r' then some (remove sReg os, "", ids', pend)
          else some (replaceAll sReg os, "", ids', pend)
      else if c == 'h' || c == 'u' then
        match arg.toNat? with
        | none => none
        | some i =>
          match s.reg i with
          | none => none
          | some (a, m) =>
            if pend.contains i then none else      -- one mark per object at a time
            let (s', r) := mark s { id := i, addr := a, main := m } (c == 'h')
            some (s', if r then "t" else "f", ids, pend)
      else if c == 'H' || c == 'U' then
        -- first half of a mark (`cstep … (.cas o p)`): the CAS, then parked in front of the lock
        match arg.toNat? with
        | none => none
        | some i =>
          match s.reg i with
          | none => none
          | some (a, m) =>
            if pend.contains i then none
            else if s.flag i == (c == 'H') then some (s, "f", ids, pend)
            else some (markCas s { id := i, addr := a, main := m } (c == 'H'), "c", ids, i :: pend)
      else if c == 'Y' then
        -- its second half (`cstep … (.apply o)`)
        match arg.toNat? with
        | none => none
        | some i =>
          match s.reg i with
          | none => none
          | some (a, m) =>
            if !pend.contains i then none else
            let (s', r) := markApply s { id := i, addr := a, main := m } (s.flag i)
            some (s', if r then "t" else "f", ids, pend.filter (· != i))
      else none
    match step with
    | none => none
    | some (s', ret, ids', pend') =>
      match runOps s' ids' pend' rest with
      | none => none
      | some (ms, ss, sf, idf) =>
        -- with a mark in flight the usable hosts may lag behind the flag: the specification speaks at rest
        some ((ret ++ showH (healthy s')) :: ms, (if pend'.isEmpty then showH (usableSpec s') else "~") :: ss, sf, idf)

def showRemoved (s : State) (ids : List Nat) : String :=
  let r := (ids.eraseDups.filter (fun i => s.removed i))
  let sorted := r.foldr (fun x acc => (acc.takeWhile (· < x)) ++ x :: (acc.dropWhile (· < x))) []
  "X[" ++ ",".intercalate (sorted.map toString) ++ "]"

def stripRet (s : String) : String := if s.startsWith "t" || s.startsWith "f" || s.startsWith "c" then (s.drop 1).toString else s

def handle (kind : String) (args : List String) (impl : String) : String :=
  match kind, args with
  | "c15.set", toks =>
    match runOps init [] [] toks with
    | none => "bad-op"
    | some (ms, ss, sf, ids) =>
      let m := "|".intercalate ms ++ " " ++ showRemoved sf ids
      -- spec: after every op the reported usable hosts are exactly the members flagged healthy in the
      -- preferred tier (computed from the model's membership/flags, not from its healthy maps), and no
      -- member's removal latch is closed while every removed member's is
      -- a list handed out by Healthy() is a snapshot: readers use it without the lock, it must never change afterwards
      let changed := (impl.splitOn " !published-lists-changed").length > 1
      let impl := (impl.splitOn " !published-lists-changed").headD impl
      let implH := ((impl.splitOn " X[").headD "").splitOn "|" |>.map stripRet
      let agree := implH.length == ss.length && (implH.zip ss).all fun (i, e) => e == "~" || i == e
      -- `retired_objects_are_latched` / F-06a: whatever was stored and is not any more has its removal latch closed
      -- (its established connections are closed), and no current member's latch is
      let implX := ((impl.splitOn " X[").getD 1 "").dropEnd 1 |>.toString
      let latchOk := ("X[" ++ implX ++ "]") == showRemoved sf ids
      let sp := if changed then "a-list-returned-by-Healthy-changed-behind-its-reader"
                else if !agree then s!"usable-hosts expected={"|".intercalate ss}"
                else if !latchOk then s!"removal-latches expected={showRemoved sf ids}" else ""
      let d := if impl == m then "" else s!"DIFF model={m} impl={impl}"
      let spS := if sp == "" then "" else s!"SPEC {sp} impl={impl}"
      if d == "" && spS == "" then "ok" else d ++ (if d != "" && spS != "" then " ; " else "") ++ spS
  | "c15.swap", [_, _, _, _] =>
    -- ReplaceAll and Add are one step of the set (Model.HostSet.cstep): a reader sees the list before or the list after
    if impl == "odd=0" then "ok" else s!"SPEC reader-saw-a-usable-list-that-is-neither-the-one-before-nor-the-one-after-the-call impl={impl}"
  | "c15.hc", [r, f, outs] =>
    match r.toNat?, f.toNat? with
    | some rise, some fall =>
      let rec go (h : Health) : List Char → List Char
        | [] => []
        | c :: cs => let h' := check rise fall h (c == '1'); (if h'.healthy then 'h' else 'u') :: go h' cs
      let m := String.ofList (go { healthy := true, succ := 0, fail := 0 } outs.toList)
      verdict impl m m
    | _, _ => "bad-op"
  | _, _ => "bad-op"

end SamVerif.Drive.C15
