import SamVerif.Drive.Common
import SamVerif.Model.Sub
namespace SamVerif.Drive.C16
open SamVerif SamVerif.Drive SamVerif.Sub

def sortNats (l : List Nat) : List Nat :=
  l.foldr (fun x acc => (acc.takeWhile (· < x)) ++ x :: (acc.dropWhile (· < x))) []

def showMsg (m : Msg) : String :=
  "+" ++ ".".intercalate ((sortNats m.subs).map toString) ++ "-" ++ ".".intercalate ((sortNats m.unsubs).map toString)

structure D where
  st : St := {}
  hold : Bool := false
  holdBusy : Bool := false
  /-- the resubscription snapshot is being sent and its Send is blocked (token K) -/
  snapHold : Bool := false
  failAt : Nat := 0
  sends : Nat := 0
  /-- streams, newest first, each with its messages newest first -/
  log : List (Nat × List String) := []

def D.up (d : D) : Bool := d.st.phase != .down

def D.record (d : D) (m : Msg) : D :=
  match d.log with
  | (id, ms) :: rest => { d with log := (id, showMsg m :: ms) :: rest, sends := d.sends + 1 }
  | [] => d

/-- the Send that has been entered (and recorded) returns -/
def D.finishSend (d : D) : Option D :=
  if d.failAt != 0 && d.failAt == d.sends then (step d.st .sendFail).map fun s => { d with st := s }
  else (step d.st .sent).map fun s => { d with st := s }

/-- the send loop takes what is pending and enters Send -/
def D.takeAndEnter (d : D) : Option D :=
  match step d.st .take with
  | none => none
  | some s =>
    match s.phase with
    | .sending m => some ({ d with st := s }.record m)
    | _ => none

def stepTok (d : D) (tok : String) : Option D :=
  let c := tok.toList.headD ' '
  let rest := (tok.drop 1).toString
  if (c == 's' || c == 'u') && rest != "" then
    match rest.toNat? with
    | none => none
    | some n =>
      let eff := d.st.subscribed n != (c == 's')
      match step d.st (if c == 's' then .sub n else .unsub n) with
      | none => none
      | some s =>
        let d1 := { d with st := s }
        if !eff || !d1.up then some d1
        else if d.snapHold then some d1            -- it waits in the pending list until the snapshot has been sent
        else if d.hold && d.holdBusy then some d1
        else if d.hold then (d1.takeAndEnter).map fun d2 => { d2 with holdBusy := true }
        else d1.takeAndEnter.bind D.finishSend
  else if tok == "F" then
    if d.up then some d else (step d.st .connectFail).map fun s => { d with st := s }
  else if c == 'C' then
    let k := if rest == "" then some 0 else rest.toNat?
    match k with
    | none => none
    | some k =>
      if d.up then some d else
      match step d.st .connect with
      | none => none
      | some s =>
        let d1 := { d with st := s, failAt := k, sends := 0, log := (d.log.length + 1, []) :: d.log }
        match s.phase with
        | .snap l =>
          if l.isEmpty then (step s .resubSent).map fun s' => { d1 with st := s' }
          else
            let d2 := d1.record { subs := l, unsubs := [] }
            if k == 1 then (step s .resubFail).map fun s' => { d2 with st := s' }
            else (step s .resubSent).map fun s' => { d2 with st := s' }
        | _ => none
  else if tok == "K" then
    -- a stream is created and the Send of the resubscription snapshot blocks
    if d.up then some d else
    match step d.st .connect with
    | none => none
    | some s =>
      let d1 := { d with st := s, failAt := 0, sends := 0, log := (d.log.length + 1, []) :: d.log }
      match s.phase with
      | .snap l =>
        if l.isEmpty then (step s .resubSent).map fun s' => { d1 with st := s' }
        else some { (d1.record { subs := l, unsubs := [] }) with snapHold := true }
      | _ => none
  else if tok == "R" then
    if d.hold || d.snapHold then none
    else if d.up then (step d.st .recvFail).map fun s => { d with st := s } else some d
  else if tok == "H" then
    if d.snapHold then none
    else if d.up && !d.hold then some { d with hold := true, holdBusy := false } else some d
  else if tok == "L" && d.snapHold then
    -- the snapshot's Send returns: the stream is up; what piled up meanwhile goes out in one request
    match step d.st .resubSent with
    | none => none
    | some s =>
      let d1 := { d with st := s, snapHold := false }
      if !d1.st.pending.isEmpty then d1.takeAndEnter.bind D.finishSend else some d1
  else if tok == "L" then
    if !d.hold then some d
    else if !d.holdBusy then some { d with hold := false }
    else
      match ({ d with hold := false, holdBusy := false } : D).finishSend with
      | none => none
      | some d1 =>
        if d1.up && !d1.st.pending.isEmpty then d1.takeAndEnter.bind D.finishSend else some d1
  else none

def runToks (d : D) : List String → Option D
  | [] => some d
  | t :: ts => match stepTok d t with | some d' => runToks d' ts | none => none

def showD (d : D) : String :=
  let streams := d.log.reverse.map fun (id, ms) => s!"{id}:{",".intercalate ms.reverse}"
  let body := if streams.isEmpty then "-" else "|".intercalate streams
  body ++ (if d.up then " up=1" else " up=0")

/-- the dependency set straight from the script -/
def depOf (toks : List String) : List Nat :=
  toks.foldl (fun acc t =>
    let c := t.toList.headD ' '
    match (t.drop 1).toString.toNat? with
    | some n => if c == 's' then (if acc.contains n then acc else n :: acc) else if c == 'u' then acc.filter (· != n) else acc
    | none => acc) []

def parseNames (s : String) : List Nat := (s.splitOn ".").filterMap (·.toNat?)

/-- fold the requests the implementation sent on its last stream, under both readings -/
def serverOf (impl : String) : Option (List Nat × List Nat) :=
  let body := (impl.splitOn " ").headD ""
  if body == "-" then some ([], []) else
  let last := (body.splitOn "|").getLastD ""
  let msgs := (((last.splitOn ":").getD 1 "").splitOn ",").filter (· != "")
  some <| msgs.foldl (fun (acc : List Nat × List Nat) m =>
    let parts := (m.drop 1).toString.splitOn "-"
    let subs := parseNames (parts.getD 0 "")
    let unsubs := parseNames (parts.getD 1 "")
    let su := ((acc.1.filter (!subs.contains ·)) ++ subs).filter (!unsubs.contains ·)
    let us := (acc.2.filter (!unsubs.contains ·)).filter (!subs.contains ·) ++ subs
    (su, us)) ([], [])

def handle (kind : String) (args : List String) (impl : String) : String :=
  match kind with
  | "c16.run" =>
    match runToks {} args with
    | none => "bad-op"
    | some d0 =>
      if d0.snapHold then "bad-op" else      -- the script must release the snapshot with L
      let d := if d0.hold then (stepTok d0 "L").getD d0 else d0
      let m := showD d
      let dd := if impl == m then "" else s!"DIFF model={m} impl={impl}"
      let bad := (impl.splitOn "blocked@").length > 1 || (impl.splitOn "stalled@").length > 1 || (impl.splitOn "hung").length > 1
      let sp :=
        if bad then "client-blocked-or-stalled"
        else if (impl.splitOn " up=1").length > 1 then
          let want := sortNats (depOf args)
          match serverOf impl with
          | some (su, us) =>
            if sortNats su == want && sortNats us == want then ""
            else s!"subscriptions-on-stream-differ-from-dependencies want={want} subscribe-first={sortNats su} unsubscribe-first={sortNats us}"
          | none => "unreadable"
        else ""
      let ss := if sp == "" then "" else s!"SPEC {sp} impl={impl}"
      if dd == "" && ss == "" then "ok" else dd ++ (if dd != "" && ss != "" then " ; " else "") ++ ss
  | "c16.loop" =>
    match args with
    | [n] => if impl == s!"attempts>={n}" then "ok" else s!"SPEC retry-loop-stopped impl={impl}"
    | _ => "bad-op"
  | _ => "bad-op"

end SamVerif.Drive.C16
