import SamVerif.Drive.Common
import SamVerif.Drive.C10
import SamVerif.Model.Scan
namespace SamVerif.Drive.C18
open SamVerif SamVerif.Drive SamVerif.Resp SamVerif.Scan

def renderBody (b : List Bytes) : String := render (.arr (some (b.map (fun t => .bulk (some t)))))

/-- `host:k1.k2,...` script syntax: entries `ask>next` separated by `,`, nodes by `;` -/
def parseScript (s : String) : Option (List Script) :=
  if s == "." then some [] else
  (s.splitOn ";").mapM fun node =>
    if node == "-" then some [] else
    ((node.splitOn ",").zipIdx).mapM fun (e, j) =>
      match e.splitOn ">" with
      | [a, b] => do
        let a ← a.toNat?
        let b ← b.toNat?
        pure (a, b, [s!"k{a}_{j}".toUTF8.toList])
      | _ => none

def handle (kind0 : String) (args : List String) (impl : String) : String :=
  -- c18.stepz: the processor has a compression section; SCAN is not affected by it
  let kind := if kind0 == "c18.stepz" then "c18.step" else kind0
  match kind, args with
  | "c18.step", nh :: rep :: argHex =>
    match nh.toNat?, C10.parseValueStr rep, argHex.mapM parseHex with
    | some n, some nodeReply, some a =>
      let m := match request n [115, 99, 97, 110] a with
        | (.local r, _) => s!"local {render r}"
        | (.fwd node body, idx) =>
          match reply idx nodeReply with
          | none => s!"fwd {node} {renderBody body} panic"
          | some r => s!"fwd {node} {renderBody body} {render r}"
      verdict impl m m
    | _, _, _ => "bad-op"
  | "c18.iter", [script] =>
    match parseScript script with
    | some nodes =>
      let total := (nodes.map List.length).sum
      let (cs, ks, ok) := iterate (nodes.map nodeScan) (total + 2) [48]
      let m := s!"{ok} {",".intercalate (cs.map hexOf)} {",".intercalate (ks.map hexOf)}"
      -- spec (independent of the model): the iteration reaches cursor 0 and returns exactly the
      -- scripted keys, node by node; the client-visible cursors are not prescribed
      let allKeys := (nodes.map (fun n => n.map (fun e => e.2.2))).flatten.flatten
      let implOk := match words impl with
        | ["true", _, k] => k == ",".intercalate (allKeys.map hexOf)
        | ["true", _] => allKeys.isEmpty
        | _ => false
      let d := if impl == m then "" else s!"DIFF model={m} impl={impl}"
      let sp := if implOk then "" else s!"SPEC expected=reaches-0-with-keys {",".intercalate (allKeys.map hexOf)} impl={impl}"
      if d == "" && sp == "" then "ok" else (d ++ (if d != "" && sp != "" then " ; " else "") ++ sp)
    | none => "bad-op"
  | _, _ => "bad-op"

end SamVerif.Drive.C18
