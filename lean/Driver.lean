/-
samdriver: reads one op per line on stdin (`<model> <args…> => <implementation output>`),
runs the model's executable definitions and the spec on the same input and prints
one verdict line per input line: `ok`, `DIFF …` (model ≠ implementation),
`SPEC …` (implementation violates the spec), or `bad-op`.
-/
import SamVerif.Drive.C12
import SamVerif.Drive.C10
import SamVerif.Drive.C18
import SamVerif.Drive.C17
import SamVerif.Drive.C19
import SamVerif.Drive.C14
import SamVerif.Drive.C15
import SamVerif.Drive.C06
import SamVerif.Drive.C05
import SamVerif.Drive.C13
import SamVerif.Drive.C11
import SamVerif.Drive.C08
import SamVerif.Drive.C20
import SamVerif.Drive.C16
import SamVerif.Drive.C02
import SamVerif.Drive.C01
import SamVerif.Drive.C09
import SamVerif.Drive.C07
import SamVerif.Drive.C04
import SamVerif.Drive.C03
open SamVerif.Drive

def dispatch (line : String) : String :=
  let (lhs, impl) := splitArrow line
  match words lhs with
  | "c12" :: args => C12.handle args impl
  | k :: args =>
    if k.startsWith "c10." then C10.handle k args impl
    else if k.startsWith "c18." then C18.handle k args impl
    else if k.startsWith "c17." then C17.handle k args impl
    else if k.startsWith "c19." then C19.handle k args impl
    else if k.startsWith "c14." then C14.handle k args impl
    else if k.startsWith "c15." then C15.handle k args impl
    else if k.startsWith "c06." then C06.handle k args impl
    else if k.startsWith "c05." then C05.handle k args impl
    else if k.startsWith "c13." then C13.handle k args impl
    else if k.startsWith "c11." then C11.handle k args impl
    else if k.startsWith "c08." then C08.handle k args impl
    else if k.startsWith "c20." then C20.handle k args impl
    else if k.startsWith "c16." then C16.handle k args impl
    else if k.startsWith "c02." then C02.handle k args impl
    else if k.startsWith "c01." then C01.handle k args impl
    else if k.startsWith "c09." then C09.handle k args impl
    else if k.startsWith "c07." then C07.handle k args impl
    else if k.startsWith "c04." then C04.handle k args impl
    else if k.startsWith "c03." then C03.handle k args impl
    else "bad-op"
  | _ => "bad-op"

partial def loop (h : IO.FS.Stream) (out : IO.FS.Stream) : IO Unit := do
  let line ← h.getLine
  if line.isEmpty then return ()
  let l := (line.dropEndWhile (fun c => c == '\n' || c == '\r')).toString
  out.putStrLn (dispatch l)
  loop h out

def main : IO Unit := do
  let stdin ← IO.getStdin
  let stdout ← IO.getStdout
  loop stdin stdout
