package main

import (
	"fmt"
	"strings"
)

// Statement lists for the properties whose models are tied to the code by the differential run
// only (C05, C08, C15, C19): the source of every modelled function, statement by statement, so
// that an edit to one of them is an obligation that no longer checks (and starts a search).

type stmtItem struct{ file, lean, fn string }

func registerStmts(name string, items []stmtItem) {
	register(name, func(c *ctx, w *strings.Builder) (int, error) {
		fmt.Fprintf(w, "namespace SamVerif.Gen.%s\n\n", name)
		n := 0
		for _, it := range items {
			fd, err := c.funcDecl(it.file, it.fn)
			if err != nil {
				return 0, err
			}
			st := stmtTexts(c, fd)
			fmt.Fprintf(w, "/-- %s (%s), statement by statement -/\ndef %s : List String :=\n  %s\n\n", it.fn, it.file, it.lean, leanStrList(st))
			n += len(st)
		}
		fmt.Fprintf(w, "end SamVerif.Gen.%s\n", name)
		return n, nil
	})
}

func init() {
	const hostGo = "host/host.go"
	const monGo = "proc/internal/hc/monitor.go"
	registerStmts("HostSet", []stmtItem{
		{hostGo, "setAdd", "Set.add"},
		{hostGo, "setRemove", "Set.remove"},
		{hostGo, "dropHealthy", "Set.dropHealthy"},
		{hostGo, "addToHealthy", "Set.addToHealthy"},
		{hostGo, "putHealthy", "Set.putHealthy"},
		{hostGo, "removeFromHealthy", "Set.removeFromHealthy"},
		{hostGo, "buildHealthyCache", "Set.buildHealthyCache"},
		{hostGo, "markHealthy", "Set.MarkHostHealthy"},
		{hostGo, "markUnhealthy", "Set.MarkHostUnhealthy"},
		{hostGo, "healthyTier", "Set.healthy"},
		{hostGo, "healthyList", "Set.Healthy"},
		{hostGo, "replaceAll", "Set.ReplaceAll"},
		{hostGo, "setHealthyFlag", "Stats.setHealthy"},
		{hostGo, "setUnhealthyFlag", "Stats.setUnhealthy"},
		{hostGo, "incFailed", "Stats.IncFailedCount"},
		{hostGo, "incSuccessful", "Stats.IncSuccessfulCount"},
		{hostGo, "markRemoved", "Host.markRemoved"},
		{monGo, "checkHostAndUpdateStatus", "Monitor.checkHostAndUpdateStatus"},
		{monGo, "checkHosts", "Monitor.checkHosts"},
	})
	const cntGo = "proc/redis/hotkey/counter.go"
	const colGo = "proc/redis/hotkey/collector.go"
	registerStmts("Hotkey", []stmtItem{
		{cntGo, "incr", "Counter.Incr"},
		{cntGo, "latch", "Counter.Latch"},
		{cntGo, "reset", "Counter.reset"},
		{cntGo, "increment", "Counter.increment"},
		{cntGo, "add", "Counter.add"},
		{cntGo, "evict", "Counter.evict"},
		{cntGo, "popItem", "freqNode.PopItem"},
		{cntGo, "appendItem", "freqNode.AppendItem"},
		{colGo, "insert", "sortedHotKeys.Insert"},
		{colGo, "collect", "Collector.collect"},
		{colGo, "evictStale", "Collector.evictStale"},
		{colGo, "hotKeys", "Collector.HotKeys"},
		{colGo, "allocCounter", "Collector.AllocCounter"},
		{cntGo, "free", "Counter.Free"},
		{colGo, "halve", "logrithmCounter.Halve"},
	})
	const cfgGo = "config/config.go"
	const ctlGo = "controller/controller.go"
	registerStmts("Conf", []stmtItem{
		{cfgGo, "handleDependencyUpdate", "Config.handleDependencyUpdate"},
		{cfgGo, "handleSvcConfigUpdate", "Config.handleSvcConfigUpdate"},
		{cfgGo, "handleSvcEndpointUpdate", "Config.handleSvcEndpointUpdate"},
		{cfgGo, "isContainEndpoint", "isContainEndpoint"},
		{cfgGo, "emitSvcAddEvent", "Config.emitSvcAddEvent"},
		{cfgGo, "emitSvcEndpointEvent", "Config.emitSvcEndpointEvent"},
		{ctlGo, "handleEvent", "Controller.handleEvent"},
		{ctlGo, "handleSvcAdd", "Controller.handleSvcAdd"},
		{ctlGo, "handleSvcDel", "Controller.handleSvcDel"},
		{ctlGo, "tryEnsureProc", "Controller.tryEnsureProc"},
		{ctlGo, "handleSvcEndpointsAdd", "Controller.handleSvcEndpointsAdd"},
		{ctlGo, "handleSvcEndpointsRemove", "Controller.handleSvcEndpointsRemove"},
		{ctlGo, "ctlHandleSvcConfigUpdate", "Controller.handleSvcConfigUpdate"},
		{"proc/tcp/proc.go", "tcpOnSvcConfigUpdate", "tcpProc.OnSvcConfigUpdate"},
		{"proc/internal/hc/monitor.go", "resetHealthCheck", "Monitor.ResetHealthCheck"},
		{"proc/internal/hc/monitor.go", "newMonitor", "NewMonitor"},
		{"proc/internal/hc/atcp/config_actions.go", "decodePayload", "decodePayload"},
	})
	const reqGo = "proc/redis/request.go"
	const hdlGo = "proc/redis/handler.go"
	const hrGo = "cmd/samaritan/hotrestart/hotrestart.go"
	const rpcGo = "cmd/samaritan/hotrestart/rpc.go"
	registerStmts("HotText", []stmtItem{
		{hrGo, "handleChild", "Restarter.handleChild"},
		{hrGo, "dispatch", "Restarter.dispatch"},
		{rpcGo, "readMessage", "readMessage"},
		{rpcGo, "readMessages", "readMessages"},
		{rpcGo, "parseMessage", "parseMessage"},
		{rpcGo, "sendMessage", "sendMessage"},
	})
	const bufGo = "proc/redis/bufio.go"
	registerStmts("Bufio", []stmtItem{
		{bufGo, "fill", "Reader.fill"},
		{bufGo, "read", "Reader.Read"},
		{bufGo, "readByte", "Reader.ReadByte"},
		{bufGo, "peekByte", "Reader.PeekByte"},
		{bufGo, "readSlice", "Reader.ReadSlice"},
		{bufGo, "readBytes", "Reader.ReadBytes"},
		{bufGo, "readFull", "Reader.ReadFull"},
	})
	registerStmts("ScanText", []stmtItem{
		{reqGo, "newScanRequest", "newScanRequest"},
		{reqGo, "parseScanCursor", "parseScanCursor"},
		{reqGo, "convert", "scanRequest.Convert"},
		{hdlGo, "handleScan", "handleScan"},
		{hdlGo, "scanAddrs", "scanAddrs"},
	})
	const hkfGo = "proc/redis/filter_hotkey.go"
	const cpsGo = "proc/redis/filter_compress.go"
	registerStmts("Filters", []stmtItem{
		{hkfGo, "hotKeyDo", "hotKeyFilter.Do"},
		{hkfGo, "hotKeyExtractKey", "hotKeyFilter.extractKey"},
		{cpsGo, "compressDo", "compressFilter.Do"},
		{cpsGo, "compressCompress", "compressFilter.Compress"},
		{cpsGo, "compressDecompress", "compressFilter.Decompress"},
		{cpsGo, "compress", "compressFilter.compress"},
		{cpsGo, "decompress", "compressFilter.decompress"},
	})
	const tcpGo = "proc/tcp/proc.go"
	registerStmts("Relay", []stmtItem{
		{tcpGo, "handleConn", "tcpProc.HandleConn"},
		{tcpGo, "pipeConn", "tcpProc.pipeConn"},
		{tcpGo, "copyBuffer", "copyBuffer"},
		{tcpGo, "closeRead", "closeRead"},
		{tcpGo, "closeWrite", "closeWrite"},
		{tcpGo, "dial", "tcpProc.dial"},
	})
}
