package main

import (
	"fmt"
	"go/ast"
	"go/token"
	"strings"
)

// Gen/Scan.lean: SCAN cursor packing (C18) and the shape of handleScan's termination test.
func init() {
	register("Scan", func(c *ctx, w *strings.Builder) (int, error) {
		const req = "proc/redis/request.go"
		const handler = "proc/redis/handler.go"
		w.WriteString("import SamVerif.Model.Go\nset_option linter.unusedVariables false\nnamespace SamVerif.Gen.Scan\nopen SamVerif\n\n")
		n := 0
		for _, name := range []string{"parseCursor", "genCursor"} {
			fd, err := c.funcDecl(req, "scanRequest."+name)
			if err != nil {
				return 0, err
			}
			s, err := newEnv().fn(fd, name)
			if err != nil {
				return 0, fmt.Errorf("%s: %v", name, err)
			}
			w.WriteString(s + "\n")
			n++
		}
		// handleScan: `if nodeIdx >= uint16(len(hosts)) { req.SetResponse(respScanTerm); return }`
		fd, err := c.funcDecl(handler, "handleScan")
		if err != nil {
			return 0, err
		}
		found := false
		foundInt := false
		ast.Inspect(fd, func(x ast.Node) bool {
			is, ok := x.(*ast.IfStmt)
			if !ok {
				return true
			}
			be, ok := is.Cond.(*ast.BinaryExpr)
			if !ok || be.Op != token.GEQ {
				return true
			}
			// `int(nodeIdx) >= len(addrs)`: the comparison is made on ints, nothing is truncated
			if exprString(c.fset, be.X) == "int(nodeIdx)" && exprString(c.fset, be.Y) == "len(addrs)" && strings.Contains(exprString(c.fset, is.Body), "respScanTerm") {
				foundInt = true
				return true
			}
			l, ok := be.X.(*ast.Ident)
			if !ok || l.Name != "nodeIdx" {
				return true
			}
			if exprString(c.fset, be.Y) == "uint16(len(hosts))" && strings.Contains(exprString(c.fset, is.Body), "respScanTerm") {
				found = true
			}
			return true
		})
		switch {
		case foundInt:
			w.WriteString("/-- `if int(nodeIdx) >= len(addrs) { req.SetResponse(respScanTerm) }` in handleScan -/\n")
			w.WriteString("def pastLastNode (nodeIdx : BitVec 16) (nHosts : Nat) : Bool := decide (nHosts ≤ nodeIdx.toNat)\n\n")
		case found:
			w.WriteString("/-- `if nodeIdx >= uint16(len(hosts)) { req.SetResponse(respScanTerm) }` in handleScan -/\n")
			w.WriteString("def pastLastNode (nodeIdx : BitVec 16) (nHosts : Nat) : Bool := BitVec.ule (BitVec.ofNat 16 nHosts) nodeIdx\n\n")
		default:
			return 0, fmt.Errorf("handleScan: termination test `int(nodeIdx) >= len(addrs)` → respScanTerm not found")
		}
		n++
		w.WriteString("end SamVerif.Gen.Scan\n")
		return n, nil
	})
}
