package main

import (
	"fmt"
	"go/ast"
	"go/token"
	"strings"
)

// Gen/Codec.lean: limits and constants of the RESP codec and the reader (C10, C11).
func init() {
	register("Codec", func(c *ctx, w *strings.Builder) (int, error) {
		const codec = "proc/redis/codec.go"
		const bufio = "proc/redis/bufio.go"
		const resp = "proc/redis/resp.go"
		w.WriteString("namespace SamVerif.Gen.Codec\n\n")
		n := 0
		for _, k := range []struct{ file, name string }{
			{codec, "maxArrayLen"}, {codec, "maxBulkStringLen"}, {codec, "maxArrayDepth"}, {bufio, "maxLineLen"}, {codec, "minItoa"}, {codec, "maxItoa"},
			{bufio, "defaultBufferSize"}, {codec, "CR"}, {codec, "LF"},
			{resp, "SimpleString"}, {resp, "Error"}, {resp, "Integer"}, {resp, "BulkString"}, {resp, "Array"},
		} {
			v, err := c.constNamed(k.file, k.name)
			if err != nil {
				return 0, err
			}
			fmt.Fprintf(w, "def %s : Int := %s\n", lowerFirst(k.name), leanInt(v))
			n++
		}
		// sliceAlloc.Make thresholds: `case n >= A: return d.alloc(n)` and `d.alloc(B)`
		fd, err := c.funcDecl(bufio, "sliceAlloc.Make")
		if err != nil {
			return 0, err
		}
		var own, slab int64 = -1, -1
		ast.Inspect(fd, func(x ast.Node) bool {
			switch t := x.(type) {
			case *ast.BinaryExpr:
				if t.Op == token.GEQ {
					if v, err := c.evalConst(bufio, t.Y); err == nil {
						own = v
					}
				}
			case *ast.CallExpr:
				if s, ok := t.Fun.(*ast.SelectorExpr); ok && s.Sel.Name == "alloc" && len(t.Args) == 1 {
					if v, err := c.evalConst(bufio, t.Args[0]); err == nil {
						slab = v
					}
				}
			}
			return true
		})
		if own < 0 || slab < 0 {
			return 0, fmt.Errorf("sliceAlloc.Make: thresholds not found")
		}
		fmt.Fprintf(w, "def allocOwnThreshold : Int := %d\ndef allocSlabSize : Int := %d\n", own, slab)
		n += 2
		// decoder/encoder buffer sizes used by the proxy: newEncoder(conn, A), newDecoder(conn, B)
		for _, f := range []string{"proc/redis/upstream.go", "proc/redis/session.go"} {
			file, err := c.file(f)
			if err != nil {
				return 0, err
			}
			tag := strings.TrimSuffix(f[len("proc/redis/"):], ".go")
			found := 0
			ast.Inspect(file, func(x ast.Node) bool {
				if ce, ok := x.(*ast.CallExpr); ok {
					if id, ok := ce.Fun.(*ast.Ident); ok && (id.Name == "newEncoder" || id.Name == "newDecoder") && len(ce.Args) == 2 {
						if v, err := c.evalConst(f, ce.Args[1]); err == nil {
							fmt.Fprintf(w, "def %s_%s_bufSize : Int := %d\n", tag, id.Name, v)
							found++
						}
					}
				}
				return true
			})
			if found != 2 {
				return 0, fmt.Errorf("%s: expected newEncoder and newDecoder with constant sizes, found %d", f, found)
			}
			n += found
		}
		w.WriteString("\nend SamVerif.Gen.Codec\n")
		return n, nil
	})
}

func lowerFirst(s string) string {
	if s == "" {
		return s
	}
	if s == strings.ToUpper(s) {
		return strings.ToLower(s)
	}
	return strings.ToLower(s[:1]) + s[1:]
}
