package main

import (
	"fmt"
	"strings"
)

// Gen/Session.lean (C01): the downstream session's loops, the assembly of split replies and
// the construction of error replies, statement by statement.
func init() {
	register("Session", func(c *ctx, w *strings.Builder) (int, error) {
		w.WriteString("namespace SamVerif.Gen.Session\n\n")
		n := 0
		for _, it := range []struct{ lean, file, fn string }{
			{"serve", "proc/redis/session.go", "session.Serve"},
			{"loopRead", "proc/redis/session.go", "session.loopRead"},
			{"loopWrite", "proc/redis/session.go", "session.loopWrite"},
			{"mgetSetResponse", "proc/redis/request.go", "mgetRequest.setResponse"},
			{"sumSetResponse", "proc/redis/request.go", "sumResultRequest.setResponse"},
			{"newError", "proc/redis/resp.go", "newError"},
			{"clientLoopRead", "proc/redis/upstream.go", "client.loopRead"},
		} {
			fd, err := c.funcDecl(it.file, it.fn)
			if err != nil {
				return 0, err
			}
			st := stmtTexts(c, fd)
			fmt.Fprintf(w, "/-- %s, statement by statement -/\ndef %s : List String :=\n  %s\n\n", it.fn, it.lean, leanStrList(st))
			n += len(st)
		}
		// the in-flight queue's capacity
		fd, err := c.funcDecl("proc/redis/session.go", "newSession")
		if err != nil {
			return 0, err
		}
		src := strings.Join(strings.Fields(exprString(c.fset, fd.Body)), " ")
		const marker = "processingReqs: make(chan *rawRequest, "
		i := strings.Index(src, marker)
		if i < 0 {
			return 0, fmt.Errorf("newSession: in-flight queue not found")
		}
		rest := src[i+len(marker):]
		j := strings.Index(rest, ")")
		fmt.Fprintf(w, "def queueCap : Nat := %s\n\n", strings.TrimSpace(rest[:j]))
		n++
		w.WriteString("end SamVerif.Gen.Session\n")
		return n, nil
	})
}
