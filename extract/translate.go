package main

// G2: a deliberately tiny Go -> Lean translator.
//
// Types:   uint8/byte, uint16, uint32, uint64 -> BitVec n;  int -> Nat (only
//          non-negative index arithmetic is accepted: no subtraction);
//          []byte -> List UInt8;  bool -> Bool.
// Exprs:   literals, identifiers, + * & | ^ << >> (constant shift < width),
//          == != < <= > >= && || !, conversions between the unsigned types,
//          len(b), b[i], b[lo:hi], table[e] for registered tables.
// Stmts:   x := e, x = e, a, b := e1, e2, `for i = A; i < N; i++ { if C { break } }`
//          (-> Go.scanFrom), `if C { return ... }`, `return ...`, and the fold loop
//          `for i := 0; i < n; i++ { acc = E(acc, b[i]) }` with n == len(b).
// Everything else is an error.

import (
	"fmt"
	"go/ast"
	"go/token"
	"strconv"
	"strings"
)

type tenv struct {
	vars   map[string]string // name -> type ("u8","u16","u32","u64","int","bytes","bool")
	tables map[string][2]string
	consts map[string]string // named constants -> literal text
	lens   map[string]string // var holding len(x) -> x
}

func newEnv() *tenv {
	return &tenv{vars: map[string]string{}, tables: map[string][2]string{}, consts: map[string]string{}, lens: map[string]string{}}
}

func goType(x ast.Expr) (string, error) {
	switch t := x.(type) {
	case *ast.Ident:
		switch t.Name {
		case "byte", "uint8":
			return "u8", nil
		case "uint16":
			return "u16", nil
		case "uint32":
			return "u32", nil
		case "uint64":
			return "u64", nil
		case "int":
			return "int", nil
		case "bool":
			return "bool", nil
		}
	case *ast.ArrayType:
		if t.Len == nil {
			if id, ok := t.Elt.(*ast.Ident); ok && (id.Name == "byte" || id.Name == "uint8") {
				return "bytes", nil
			}
		}
	}
	return "", fmt.Errorf("unsupported type %T", x)
}

func width(t string) int {
	switch t {
	case "u8":
		return 8
	case "u16":
		return 16
	case "u32":
		return 32
	case "u64":
		return 64
	}
	return 0
}

func leanType(t string) string {
	switch t {
	case "int":
		return "Nat"
	case "bytes":
		return "List UInt8"
	case "bool":
		return "Bool"
	}
	return fmt.Sprintf("BitVec %d", width(t))
}

func litFor(v uint64, t string) (string, error) {
	if w := width(t); w > 0 {
		if w < 64 && v >= 1<<uint(w) {
			return "", fmt.Errorf("literal %d overflows %s", v, t)
		}
		return fmt.Sprintf("%d#%d", v, w), nil
	}
	if t == "int" {
		return strconv.FormatUint(v, 10), nil
	}
	return "", fmt.Errorf("literal for type %s", t)
}

func parseLit(b *ast.BasicLit) (uint64, error) {
	switch b.Kind {
	case token.INT:
		return strconv.ParseUint(b.Value, 0, 64)
	case token.CHAR:
		s, err := strconv.Unquote(b.Value)
		if err != nil || len(s) != 1 {
			return 0, fmt.Errorf("char literal %s", b.Value)
		}
		return uint64(s[0]), nil
	}
	return 0, fmt.Errorf("literal kind %v", b.Kind)
}

// expr returns the Lean text and the type; type "lit" means an untyped constant
// whose value is returned in text as decimal.
func (e *tenv) expr(x ast.Expr) (string, string, error) {
	switch t := x.(type) {
	case *ast.ParenExpr:
		return e.expr(t.X)
	case *ast.BasicLit:
		v, err := parseLit(t)
		if err != nil {
			return "", "", err
		}
		return strconv.FormatUint(v, 10), "lit", nil
	case *ast.Ident:
		if ty, ok := e.vars[t.Name]; ok {
			return t.Name, ty, nil
		}
		if v, ok := e.consts[t.Name]; ok {
			return v, "lit", nil
		}
		if t.Name == "true" || t.Name == "false" {
			return t.Name, "bool", nil
		}
		return "", "", fmt.Errorf("unknown identifier %s", t.Name)
	case *ast.UnaryExpr:
		if t.Op == token.NOT {
			s, ty, err := e.expr(t.X)
			if err != nil || ty != "bool" {
				return "", "", fmt.Errorf("! on non-bool: %v", err)
			}
			return "(!" + s + ")", "bool", nil
		}
		return "", "", fmt.Errorf("unary %v", t.Op)
	case *ast.CallExpr:
		if id, ok := t.Fun.(*ast.Ident); ok && len(t.Args) == 1 {
			if id.Name == "len" {
				s, ty, err := e.expr(t.Args[0])
				if err != nil || ty != "bytes" {
					return "", "", fmt.Errorf("len of non-bytes: %v", err)
				}
				return s + ".length", "int", nil
			}
			if to, err := goType(id); err == nil && width(to) > 0 {
				s, ty, err := e.expr(t.Args[0])
				if err != nil {
					return "", "", err
				}
				if ty == "lit" {
					v, _ := strconv.ParseUint(s, 10, 64)
					l, err := litFor(v, to)
					return l, to, err
				}
				if width(ty) == 0 {
					return "", "", fmt.Errorf("conversion %s(%s)", id.Name, ty)
				}
				if ty == to {
					return s, to, nil
				}
				return fmt.Sprintf("(%s.setWidth %d)", s, width(to)), to, nil
			}
		}
		return "", "", fmt.Errorf("unsupported call")
	case *ast.IndexExpr:
		if id, ok := t.X.(*ast.Ident); ok {
			if tb, ok := e.tables[id.Name]; ok {
				s, ty, err := e.expr(t.Index)
				if err != nil || width(ty) == 0 {
					return "", "", fmt.Errorf("table index: %v (%s)", err, ty)
				}
				z, _ := litFor(0, tb[1])
				return fmt.Sprintf("(%s.getD %s.toNat %s)", tb[0], s, z), tb[1], nil
			}
			if e.vars[id.Name] == "bytes" {
				s, ty, err := e.expr(t.Index)
				if err != nil || (ty != "int" && ty != "lit") {
					return "", "", fmt.Errorf("byte index: %v (%s)", err, ty)
				}
				return fmt.Sprintf("(Go.byteAt %s %s)", id.Name, s), "u8", nil
			}
		}
		return "", "", fmt.Errorf("unsupported index expression")
	case *ast.SliceExpr:
		id, ok := t.X.(*ast.Ident)
		if !ok || e.vars[id.Name] != "bytes" || t.Slice3 || t.Low == nil || t.High == nil {
			return "", "", fmt.Errorf("unsupported slice expression")
		}
		lo, lt, err1 := e.expr(t.Low)
		hi, ht, err2 := e.expr(t.High)
		if err1 != nil || err2 != nil || (lt != "int" && lt != "lit") || (ht != "int" && ht != "lit") {
			return "", "", fmt.Errorf("slice bounds")
		}
		return fmt.Sprintf("(Go.slice %s %s %s)", id.Name, lo, hi), "bytes", nil
	case *ast.BinaryExpr:
		return e.binary(t)
	}
	return "", "", fmt.Errorf("unsupported expression %T", x)
}

func (e *tenv) binary(t *ast.BinaryExpr) (string, string, error) {
	l, lt, err := e.expr(t.X)
	if err != nil {
		return "", "", err
	}
	r, rt, err := e.expr(t.Y)
	if err != nil {
		return "", "", err
	}
	// shifts: constant amount below the width (Lean's BitVec shift by a Nat
	// agrees with Go for any amount, but we insist anyway: a variable shift is
	// outside the subset).
	if t.Op == token.SHL || t.Op == token.SHR {
		if rt != "lit" || width(lt) == 0 {
			return "", "", fmt.Errorf("shift must be uintN by constant")
		}
		k, _ := strconv.Atoi(r)
		if k >= width(lt) {
			return "", "", fmt.Errorf("shift amount %d >= width", k)
		}
		op := "<<<"
		if t.Op == token.SHR {
			op = ">>>"
		}
		return fmt.Sprintf("(%s %s %s)", l, op, r), lt, nil
	}
	// unify literal with the other side
	ty := lt
	if lt == "lit" && rt == "lit" {
		return "", "", fmt.Errorf("constant folding not supported")
	}
	if lt == "lit" {
		ty = rt
		v, _ := strconv.ParseUint(l, 10, 64)
		if l, err = litFor(v, ty); err != nil {
			return "", "", err
		}
	} else if rt == "lit" {
		v, _ := strconv.ParseUint(r, 10, 64)
		if r, err = litFor(v, ty); err != nil {
			return "", "", err
		}
	} else if lt != rt {
		return "", "", fmt.Errorf("mixed types %s %s", lt, rt)
	}
	bv := width(ty) > 0
	switch t.Op {
	case token.AND, token.OR, token.XOR:
		if !bv {
			return "", "", fmt.Errorf("bit op on %s", ty)
		}
		op := map[token.Token]string{token.AND: "&&&", token.OR: "|||", token.XOR: "^^^"}[t.Op]
		return fmt.Sprintf("(%s %s %s)", l, op, r), ty, nil
	case token.ADD, token.MUL:
		if !bv && ty != "int" {
			return "", "", fmt.Errorf("arith on %s", ty)
		}
		return fmt.Sprintf("(%s %s %s)", l, t.Op.String(), r), ty, nil
	case token.SUB:
		if !bv {
			return "", "", fmt.Errorf("subtraction on int is outside the subset")
		}
		return fmt.Sprintf("(%s - %s)", l, r), ty, nil
	case token.EQL:
		return fmt.Sprintf("(%s == %s)", l, r), "bool", nil
	case token.NEQ:
		return fmt.Sprintf("(%s != %s)", l, r), "bool", nil
	case token.LSS, token.LEQ, token.GTR, token.GEQ:
		if bv {
			f := map[token.Token]string{token.LSS: "BitVec.ult %s %s", token.LEQ: "BitVec.ule %s %s",
				token.GTR: "BitVec.ult %[2]s %[1]s", token.GEQ: "BitVec.ule %[2]s %[1]s"}[t.Op]
			return "(" + fmt.Sprintf(f, l, r) + ")", "bool", nil
		}
		if ty != "int" {
			return "", "", fmt.Errorf("comparison on %s", ty)
		}
		return fmt.Sprintf("(decide (%s %s %s))", l, map[token.Token]string{token.LSS: "<", token.LEQ: "≤", token.GTR: ">", token.GEQ: "≥"}[t.Op], r), "bool", nil
	case token.LAND, token.LOR:
		if ty != "bool" {
			return "", "", fmt.Errorf("logical op on %s", ty)
		}
		return fmt.Sprintf("(%s %s %s)", l, t.Op.String(), r), "bool", nil
	}
	return "", "", fmt.Errorf("unsupported operator %v", t.Op)
}

// typed renders expression x at type want (used for returns / assignments of literals).
func (e *tenv) typed(x ast.Expr, want string) (string, error) {
	s, ty, err := e.expr(x)
	if err != nil {
		return "", err
	}
	if ty == "lit" {
		v, _ := strconv.ParseUint(s, 10, 64)
		return litFor(v, want)
	}
	if want != "" && ty != want {
		return "", fmt.Errorf("type %s where %s expected", ty, want)
	}
	return s, nil
}

// fn translates a function declaration into a Lean def.
func (e *tenv) fn(fd *ast.FuncDecl, leanName string) (string, error) {
	var params []string
	for _, f := range fd.Type.Params.List {
		ty, err := goType(f.Type)
		if err != nil {
			return "", err
		}
		for _, n := range f.Names {
			e.vars[n.Name] = ty
			params = append(params, fmt.Sprintf("(%s : %s)", n.Name, leanType(ty)))
		}
	}
	var rets []string
	var named []string
	if fd.Type.Results != nil {
		for _, f := range fd.Type.Results.List {
			ty, err := goType(f.Type)
			if err != nil {
				return "", err
			}
			if len(f.Names) == 0 {
				rets = append(rets, ty)
			}
			for _, n := range f.Names {
				rets = append(rets, ty)
				named = append(named, n.Name)
				e.vars[n.Name] = ty
			}
		}
	}
	var lt []string
	for _, r := range rets {
		lt = append(lt, leanType(r))
	}
	body, err := e.stmts(fd.Body.List, rets, named)
	if err != nil {
		return "", err
	}
	var w strings.Builder
	fmt.Fprintf(&w, "def %s %s : %s :=\n", leanName, strings.Join(params, " "), strings.Join(lt, " × "))
	// named results start at their zero value
	for i, n := range named {
		z, err := litFor(0, rets[i])
		if err != nil {
			return "", err
		}
		fmt.Fprintf(&w, "  let %s : %s := %s\n", n, leanType(rets[i]), z)
	}
	w.WriteString(body)
	return w.String(), nil
}

func (e *tenv) retExpr(xs []ast.Expr, rets, named []string) (string, error) {
	if len(xs) == 0 {
		if len(named) == 0 {
			return "", fmt.Errorf("bare return without named results")
		}
		return "(" + strings.Join(named, ", ") + ")", nil
	}
	if len(xs) != len(rets) {
		return "", fmt.Errorf("return arity")
	}
	var parts []string
	for i, x := range xs {
		s, err := e.typed(x, rets[i])
		if err != nil {
			return "", err
		}
		parts = append(parts, s)
	}
	if len(parts) == 1 {
		return parts[0], nil
	}
	return "(" + strings.Join(parts, ", ") + ")", nil
}

func (e *tenv) stmts(list []ast.Stmt, rets, named []string) (string, error) {
	var w strings.Builder
	for idx, st := range list {
		switch s := st.(type) {
		case *ast.AssignStmt:
			if len(s.Lhs) != len(s.Rhs) {
				return "", fmt.Errorf("assignment arity")
			}
			for i := range s.Lhs {
				id, ok := s.Lhs[i].(*ast.Ident)
				if !ok {
					return "", fmt.Errorf("assignment to non-identifier")
				}
				want := e.vars[id.Name]
				if s.Tok == token.DEFINE && want == "" {
					// type from rhs; untyped constants default to int
					str, ty, err := e.expr(s.Rhs[i])
					if err != nil {
						return "", err
					}
					if ty == "lit" {
						ty = "int"
					}
					e.vars[id.Name] = ty
					if c, ok := s.Rhs[i].(*ast.CallExpr); ok {
						if f, ok := c.Fun.(*ast.Ident); ok && f.Name == "len" {
							if a, ok := c.Args[0].(*ast.Ident); ok {
								e.lens[id.Name] = a.Name
							}
						}
					}
					fmt.Fprintf(&w, "  let %s : %s := %s\n", id.Name, leanType(ty), str)
					continue
				}
				str, err := e.typed(s.Rhs[i], want)
				if err != nil {
					return "", err
				}
				fmt.Fprintf(&w, "  let %s : %s := %s\n", id.Name, leanType(want), str)
			}
		case *ast.ForStmt:
			str, err := e.forStmt(s)
			if err != nil {
				return "", err
			}
			w.WriteString(str)
		case *ast.IfStmt:
			if s.Init != nil || s.Else != nil || len(s.Body.List) != 1 {
				return "", fmt.Errorf("only `if C { return ... }` is supported")
			}
			r, ok := s.Body.List[0].(*ast.ReturnStmt)
			if !ok {
				return "", fmt.Errorf("only `if C { return ... }` is supported")
			}
			c, ty, err := e.expr(s.Cond)
			if err != nil || ty != "bool" {
				return "", fmt.Errorf("if condition: %v", err)
			}
			re, err := e.retExpr(r.Results, rets, named)
			if err != nil {
				return "", err
			}
			rest, err := e.stmts(list[idx+1:], rets, named)
			if err != nil {
				return "", err
			}
			fmt.Fprintf(&w, "  if %s then %s else\n%s", c, re, rest)
			return w.String(), nil
		case *ast.ReturnStmt:
			re, err := e.retExpr(s.Results, rets, named)
			if err != nil {
				return "", err
			}
			fmt.Fprintf(&w, "  %s\n", re)
			if idx != len(list)-1 {
				return "", fmt.Errorf("statements after return")
			}
			return w.String(), nil
		default:
			return "", fmt.Errorf("unsupported statement %T", st)
		}
	}
	return "", fmt.Errorf("function body does not end in return")
}

// forStmt handles exactly two loop shapes.
func (e *tenv) forStmt(s *ast.ForStmt) (string, error) {
	// header: i = A / i := A ; i < N ; i++
	as, ok := s.Init.(*ast.AssignStmt)
	if !ok || len(as.Lhs) != 1 || len(as.Rhs) != 1 {
		return "", fmt.Errorf("for init shape")
	}
	iv, ok := as.Lhs[0].(*ast.Ident)
	if !ok {
		return "", fmt.Errorf("for init shape")
	}
	e.vars[iv.Name] = "int"
	start, err := e.typed(as.Rhs[0], "int")
	if err != nil {
		return "", err
	}
	cond, ok := s.Cond.(*ast.BinaryExpr)
	if !ok || cond.Op != token.LSS {
		return "", fmt.Errorf("for condition must be i < n")
	}
	if ci, ok := cond.X.(*ast.Ident); !ok || ci.Name != iv.Name {
		return "", fmt.Errorf("for condition must be i < n")
	}
	bound, err := e.typed(cond.Y, "int")
	if err != nil {
		return "", err
	}
	inc, ok := s.Post.(*ast.IncDecStmt)
	if !ok || inc.Tok != token.INC {
		return "", fmt.Errorf("for post must be i++")
	}
	if pi, ok := inc.X.(*ast.Ident); !ok || pi.Name != iv.Name {
		return "", fmt.Errorf("for post must be i++")
	}
	if len(s.Body.List) != 1 {
		return "", fmt.Errorf("for body must be a single statement")
	}
	switch b := s.Body.List[0].(type) {
	case *ast.IfStmt:
		// scan loop: if C { break }
		if b.Init != nil || b.Else != nil || len(b.Body.List) != 1 {
			return "", fmt.Errorf("scan loop body shape")
		}
		br, ok := b.Body.List[0].(*ast.BranchStmt)
		if !ok || br.Tok != token.BREAK || br.Label != nil {
			return "", fmt.Errorf("scan loop body shape")
		}
		c, ty, err := e.expr(b.Cond)
		if err != nil || ty != "bool" {
			return "", fmt.Errorf("scan loop condition: %v", err)
		}
		return fmt.Sprintf("  let %s : Nat := Go.scanFrom (fun %s => %s) %s %s\n", iv.Name, iv.Name, c, start, bound), nil
	case *ast.AssignStmt:
		// fold loop over all of a byte slice: for i := 0; i < n; i++ { acc = E }, n == len(b)
		if as.Tok != token.DEFINE || start != "0" || len(b.Lhs) != 1 || len(b.Rhs) != 1 || b.Tok != token.ASSIGN {
			return "", fmt.Errorf("fold loop shape")
		}
		acc, ok := b.Lhs[0].(*ast.Ident)
		if !ok || width(e.vars[acc.Name]) == 0 {
			return "", fmt.Errorf("fold accumulator")
		}
		var arr string
		if bi, ok := cond.Y.(*ast.Ident); ok {
			arr = e.lens[bi.Name]
		}
		if arr == "" {
			return "", fmt.Errorf("fold loop bound must be a variable holding len(b)")
		}
		// the body may use b[i] only; replace it by the bound element variable
		elem := "__x"
		sub := &substIndex{arr: arr, idx: iv.Name, elem: elem}
		rhs := sub.rewrite(b.Rhs[0])
		if sub.bad {
			return "", fmt.Errorf("fold body uses the index other than as %s[%s]", arr, iv.Name)
		}
		e.vars[elem] = "u8"
		delete(e.vars, iv.Name)
		str, err := e.typed(rhs, e.vars[acc.Name])
		e.vars[iv.Name] = "int"
		if err != nil {
			return "", err
		}
		return fmt.Sprintf("  let %s : %s := %s.foldl (fun %s (__b : UInt8) => let %s := __b.toBitVec; %s) %s\n",
			acc.Name, leanType(e.vars[acc.Name]), arr, acc.Name, elem, str, acc.Name), nil
	}
	return "", fmt.Errorf("unsupported loop body")
}

type substIndex struct {
	arr, idx, elem string
	bad            bool
}

func (s *substIndex) rewrite(x ast.Expr) ast.Expr {
	switch t := x.(type) {
	case *ast.IndexExpr:
		if a, ok := t.X.(*ast.Ident); ok && a.Name == s.arr {
			if i, ok := t.Index.(*ast.Ident); ok && i.Name == s.idx {
				return &ast.Ident{Name: s.elem}
			}
			s.bad = true
			return x
		}
		return &ast.IndexExpr{X: t.X, Index: s.rewrite(t.Index)}
	case *ast.ParenExpr:
		return &ast.ParenExpr{X: s.rewrite(t.X)}
	case *ast.BinaryExpr:
		return &ast.BinaryExpr{X: s.rewrite(t.X), Op: t.Op, Y: s.rewrite(t.Y)}
	case *ast.UnaryExpr:
		return &ast.UnaryExpr{Op: t.Op, X: s.rewrite(t.X)}
	case *ast.CallExpr:
		var args []ast.Expr
		for _, a := range t.Args {
			args = append(args, s.rewrite(a))
		}
		return &ast.CallExpr{Fun: t.Fun, Args: args}
	case *ast.Ident:
		if t.Name == s.idx {
			s.bad = true
		}
	}
	return x
}
