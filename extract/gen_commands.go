package main

import (
	"fmt"
	"go/ast"
	"go/token"
	"strconv"
	"strings"
)

// stringList extracts a []string composite literal.
func stringList(x ast.Expr) ([]string, error) {
	cl, ok := x.(*ast.CompositeLit)
	if !ok {
		return nil, fmt.Errorf("not a composite literal")
	}
	var out []string
	for _, e := range cl.Elts {
		bl, ok := e.(*ast.BasicLit)
		if !ok || bl.Kind != token.STRING {
			return nil, fmt.Errorf("non-string element")
		}
		s, err := strconv.Unquote(bl.Value)
		if err != nil {
			return nil, err
		}
		out = append(out, s)
	}
	return out, nil
}

func leanStrings(l []string) string {
	var q []string
	for _, s := range l {
		q = append(q, strconv.Quote(s))
	}
	return "[" + strings.Join(q, ", ") + "]"
}

// leanByteLists renders names as byte lists (kernel-friendly), one per line with the text as a comment.
func leanByteLists(l []string) string {
	var b strings.Builder
	b.WriteString("[\n")
	for i, s := range l {
		var bs []string
		for _, c := range []byte(s) {
			bs = append(bs, strconv.Itoa(int(c)))
		}
		sep := ","
		if i == len(l)-1 {
			sep = ""
		}
		fmt.Fprintf(&b, "  [%s]%s -- %s\n", strings.Join(bs, ", "), sep, s)
	}
	b.WriteString("]")
	return b.String()
}

// rangeListFilling finds, inside fn, `for _, x := range []string{…} { <m>[x] = … }` and returns the list.
func rangeListFilling(fn *ast.FuncDecl, mapName string) ([]string, error) {
	var out []string
	var err error
	found := false
	ast.Inspect(fn, func(n ast.Node) bool {
		rs, ok := n.(*ast.RangeStmt)
		if !ok {
			return true
		}
		fills := false
		ast.Inspect(rs.Body, func(m ast.Node) bool {
			if as, ok := m.(*ast.AssignStmt); ok && len(as.Lhs) == 1 {
				if ix, ok := as.Lhs[0].(*ast.IndexExpr); ok {
					if id, ok := ix.X.(*ast.Ident); ok && id.Name == mapName {
						fills = true
					}
				}
			}
			return true
		})
		if fills {
			out, err = stringList(rs.X)
			found = true
			return false
		}
		return true
	})
	if !found {
		return nil, fmt.Errorf("no range loop filling %s", mapName)
	}
	return out, err
}

// Gen/Commands.lean (C14, C13, C03): the command tables of the redis processor.
func init() {
	register("Commands", func(c *ctx, w *strings.Builder) (int, error) {
		const handler = "proc/redis/handler.go"
		const rds = "proc/redis/redis.go"
		const cps = "proc/redis/filter_compress.go"
		w.WriteString("namespace SamVerif.Gen.Commands\n\n")
		n := 0
		for _, name := range []string{"simpleCommands", "sumResultCommands"} {
			v, err := c.valueSpec(handler, name)
			if err != nil {
				return 0, err
			}
			l, err := stringList(v)
			if err != nil {
				return 0, fmt.Errorf("%s: %v", name, err)
			}
			fmt.Fprintf(w, "def %s : List (List UInt8) := %s\n\n", name, leanByteLists(l))
			n += len(l)
		}
		// read-only list: the range loop in handler.go's init filling readOnlyCommands
		hf, err := c.file(handler)
		if err != nil {
			return 0, err
		}
		var ro []string
		for _, d := range hf.Decls {
			if fd, ok := d.(*ast.FuncDecl); ok && fd.Name.Name == "init" {
				if l, err := rangeListFilling(fd, "readOnlyCommands"); err == nil {
					ro = l
				}
			}
		}
		if ro == nil {
			return 0, fmt.Errorf("read-only command list not found")
		}
		fmt.Fprintf(w, "def readOnlyCommands : List (List UInt8) := %s\n\n", leanByteLists(ro))
		n += len(ro)
		// special handlers: p.addHandler(scope, "name", handleX) in initCommandHandlers; loops over the two lists
		fd, err := c.funcDecl(rds, "redisProc.initCommandHandlers")
		if err != nil {
			return 0, err
		}
		var special []string
		loops := map[string]string{}
		ast.Inspect(fd, func(x ast.Node) bool {
			switch t := x.(type) {
			case *ast.RangeStmt:
				list := exprString(c.fset, t.X)
				ast.Inspect(t.Body, func(y ast.Node) bool {
					if ce, ok := y.(*ast.CallExpr); ok && strings.HasSuffix(exprString(c.fset, ce.Fun), ".addHandler") && len(ce.Args) == 3 {
						loops[list] = exprString(c.fset, ce.Args[2])
					}
					return true
				})
				return false
			case *ast.CallExpr:
				if strings.HasSuffix(exprString(c.fset, t.Fun), ".addHandler") && len(t.Args) == 3 {
					if bl, ok := t.Args[1].(*ast.BasicLit); ok {
						s, _ := strconv.Unquote(bl.Value)
						var bs []string
						for _, ch := range []byte(s) {
							bs = append(bs, strconv.Itoa(int(ch)))
						}
						special = append(special, fmt.Sprintf("([%s], %s)", strings.Join(bs, ", "), strconv.Quote(exprString(c.fset, t.Args[2]))))
					}
				}
			}
			return true
		})
		if loops["simpleCommands"] == "" || loops["sumResultCommands"] == "" || len(special) == 0 {
			return 0, fmt.Errorf("initCommandHandlers: unexpected shape")
		}
		fmt.Fprintf(w, "/-- handler registered for every name of simpleCommands / sumResultCommands -/\ndef simpleHandler : String := %s\ndef sumResultHandler : String := %s\n\n",
			strconv.Quote(loops["simpleCommands"]), strconv.Quote(loops["sumResultCommands"]))
		fmt.Fprintf(w, "/-- individually registered commands: (name, handler function) -/\ndef specialHandlers : List (List UInt8 × String) := [%s]\n\n", strings.Join(special, ", "))
		n += len(special) + 2
		// how findHandler normalises the name
		fh, err := c.funcDecl(rds, "redisProc.findHandler")
		if err != nil {
			return 0, err
		}
		lower := ""
		ast.Inspect(fh, func(x ast.Node) bool {
			if ix, ok := x.(*ast.IndexExpr); ok && strings.HasSuffix(exprString(c.fset, ix.X), "cmdHdlrs") {
				if ce, ok := ix.Index.(*ast.CallExpr); ok {
					lower = exprString(c.fset, ce.Fun)
				}
			}
			return true
		})
		if lower == "" {
			return 0, fmt.Errorf("findHandler: lookup key is not a function of cmd")
		}
		fmt.Fprintf(w, "/-- the function findHandler applies to the command name before the table lookup -/\ndef findHandlerNormaliser : String := %s\n\n", strconv.Quote(lower))
		n++
		// compression filter tables
		cf, err := c.file(cps)
		if err != nil {
			return 0, err
		}
		for _, d := range cf.Decls {
			if fd, ok := d.(*ast.FuncDecl); ok && fd.Name.Name == "init" {
				for _, m := range []string{"bannedCmdsInCps", "wkSkipCheckCmdsInDecps"} {
					l, err := rangeListFilling(fd, m)
					if err != nil {
						return 0, err
					}
					fmt.Fprintf(w, "def %s : List (List UInt8) := %s\n\n", m, leanByteLists(l))
					n += len(l)
				}
			}
		}
		w.WriteString("end SamVerif.Gen.Commands\n")
		return n, nil
	})
}
