module verifextract

go 1.13
