package main

import (
	"fmt"
	"strings"
)

// Gen/Upstream.lean (C07, C04, C03): connection table, redirection handling, slot refresh and routing, statement by statement.
func init() {
	register("Upstream", func(c *ctx, w *strings.Builder) (int, error) {
		const f = "proc/redis/upstream.go"
		w.WriteString("namespace SamVerif.Gen.Upstream\n\n")
		n := 0
		for _, it := range []struct{ lean, file, fn string }{
			{"getClient", f, "upstream.getClient"},
			{"createClient", f, "upstream.createClient"},
			{"removeClient", f, "upstream.removeClient"},
			{"removeEndedClient", f, "upstream.removeEndedClient"},
			{"resetAllClients", f, "upstream.resetAllClients"},
			{"newClient", f, "newClient"},
			{"makeRequest", f, "upstream.MakeRequest"},
			{"makeRequestToHost", f, "upstream.MakeRequestToHost"},
			{"chooseHost", f, "upstream.chooseHost"},
			{"handleResp", f, "client.handleResp"},
			{"handleRedirection", f, "upstream.handleRedirection"},
			{"handleClusterDown", f, "upstream.handleClusterDown"},
			{"triggerSlotsRefresh", f, "upstream.triggerSlotsRefresh"},
			{"loopRefreshSlots", f, "upstream.loopRefreshSlots"},
			{"refreshSlots", f, "upstream.refreshSlots"},
			{"doSlotsRefresh", f, "upstream.doSlotsRefresh"},
			{"handleSimpleCommand", "proc/redis/handler.go", "handleSimpleCommand"},
			{"handleSumResultCommand", "proc/redis/handler.go", "handleSumResultCommand"},
			{"handleMGet", "proc/redis/handler.go", "handleMGet"},
			{"handleMSet", "proc/redis/handler.go", "handleMSet"},
			{"mgetSplit", "proc/redis/request.go", "mgetRequest.Split"},
			{"msetSplit", "proc/redis/request.go", "msetRequest.Split"},
			{"sumSplit", "proc/redis/request.go", "sumResultRequest.Split"},
		} {
			fd, err := c.funcDecl(it.file, it.fn)
			if err != nil {
				return 0, err
			}
			st := stmtTexts(c, fd)
			fmt.Fprintf(w, "/-- %s, statement by statement -/\ndef %s : List String :=\n  %s\n\n", it.fn, it.lean, leanStrList(st))
			n += len(st)
		}
		w.WriteString("end SamVerif.Gen.Upstream\n")
		return n, nil
	})
}
