package main

import (
	"fmt"
	"go/ast"
	"strings"
)

// stmtTexts renders the top-level statements of a function body, whitespace-normalised.
func stmtTexts(c *ctx, fd *ast.FuncDecl) []string {
	var out []string
	for _, s := range fd.Body.List {
		out = append(out, strings.Join(strings.Fields(exprString(c.fset, s)), " "))
	}
	return out
}

// Gen/Sub.lean (C16): the subscription client's critical sections and loops, statement by statement.
func init() {
	register("Sub", func(c *ctx, w *strings.Builder) (int, error) {
		const f = "config/discovery.go"
		w.WriteString("namespace SamVerif.Gen.Sub\n\n")
		n := 0
		for _, it := range []struct{ lean, fn string }{
			{"subscribe", "svcDiscoveryClient.Subscribe"},
			{"unsubscribe", "svcDiscoveryClient.Unsubscribe"},
			{"addPendingLocked", "svcDiscoveryClient.addPendingLocked"},
			{"takePending", "svcDiscoveryClient.takePending"},
			{"resubscribe", "svcDiscoveryClient.resubscribe"},
			{"loopSend", "svcDiscoveryClient.loopSend"},
			{"loopRecv", "svcDiscoveryClient.loopRecv"},
			{"runOnce", "svcDiscoveryClient.run"},
			{"runLoop", "svcDiscoveryClient.Run"},
		} {
			fd, err := c.funcDecl(f, it.fn)
			if err != nil {
				return 0, err
			}
			st := stmtTexts(c, fd)
			fmt.Fprintf(w, "/-- %s, statement by statement -/\ndef %s : List String :=\n  %s\n\n", it.fn, it.lean, leanStrList(st))
			n += len(st)
		}
		w.WriteString("end SamVerif.Gen.Sub\n")
		return n, nil
	})
}
