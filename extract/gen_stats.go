package main

import (
	"fmt"
	"go/ast"
	"strings"
)

// flowFacts walks a function body and records, in source order, the statements selected by
// pick, each prefixed with the control context it sits in (if-conditions, else, case labels,
// range, defer, function literals passed to <x>.RegisterHook, other function literals, go),
// and the early returns that sit directly under an if.  It is the G3 "shape" extraction: a
// fingerprint of which counter moves where and under which guard.
func flowFacts(c *ctx, body ast.Node, pick func(call *ast.CallExpr) (string, bool)) []string {
	var out []string
	var walk func(n ast.Node, ctxs []string)
	emit := func(ctxs []string, s string) {
		out = append(out, strings.Join(append(append([]string{}, ctxs...), s), " | "))
	}
	with := func(ctxs []string, s string) []string { return append(append([]string{}, ctxs...), s) }
	walkList := func(l []ast.Stmt, ctxs []string) {
		for _, s := range l {
			walk(s, ctxs)
		}
	}
	walk = func(n ast.Node, ctxs []string) {
		switch t := n.(type) {
		case nil:
			return
		case *ast.BlockStmt:
			if t != nil {
				walkList(t.List, ctxs)
			}
		case *ast.IfStmt:
			if t.Init != nil {
				walk(t.Init, ctxs)
			}
			cond := exprString(c.fset, t.Cond)
			walk(t.Body, with(ctxs, "if "+cond))
			if t.Else != nil {
				walk(t.Else, with(ctxs, "else of "+cond))
			}
		case *ast.SwitchStmt:
			tag := ""
			if t.Tag != nil {
				tag = exprString(c.fset, t.Tag)
			}
			for _, cl := range t.Body.List {
				cc := cl.(*ast.CaseClause)
				label := "default of " + tag
				if cc.List != nil {
					var es []string
					for _, e := range cc.List {
						es = append(es, exprString(c.fset, e))
					}
					label = "case " + tag + " = " + strings.Join(es, ", ")
				}
				walkList(cc.Body, with(ctxs, label))
			}
		case *ast.SelectStmt:
			for _, cl := range t.Body.List {
				cc := cl.(*ast.CommClause)
				label := "select default"
				if cc.Comm != nil {
					label = "select " + exprString(c.fset, cc.Comm)
				}
				walkList(cc.Body, with(ctxs, label))
			}
		case *ast.RangeStmt:
			walk(t.Body, with(ctxs, "range "+exprString(c.fset, t.X)))
		case *ast.ForStmt:
			walk(t.Body, with(ctxs, "for"))
		case *ast.DeferStmt:
			walk(t.Call, with(ctxs, "defer"))
		case *ast.GoStmt:
			walk(t.Call, with(ctxs, "go"))
		case *ast.ReturnStmt:
			if len(ctxs) > 0 {
				emit(ctxs, "return")
			}
			for _, r := range t.Results {
				walk(r, ctxs)
			}
		case *ast.ExprStmt:
			walk(t.X, ctxs)
		case *ast.AssignStmt:
			for _, r := range t.Rhs {
				walk(r, ctxs)
			}
		case *ast.DeclStmt, *ast.IncDecStmt, *ast.BranchStmt, *ast.SendStmt, *ast.LabeledStmt, *ast.EmptyStmt:
			if l, ok := n.(*ast.LabeledStmt); ok {
				walk(l.Stmt, ctxs)
			}
		case *ast.CallExpr:
			if s, ok := pick(t); ok {
				emit(ctxs, s)
			}
			inner := "func"
			if sel, ok := t.Fun.(*ast.SelectorExpr); ok && sel.Sel.Name == "RegisterHook" {
				inner = "hook"
			}
			if fl, ok := t.Fun.(*ast.FuncLit); ok {
				walk(fl.Body, ctxs) // immediately invoked (defer func(){…}())
			}
			for _, a := range t.Args {
				if fl, ok := a.(*ast.FuncLit); ok {
					walk(fl.Body, with(ctxs, inner))
				} else {
					walk(a, ctxs)
				}
			}
		case *ast.FuncLit:
			walk(t.Body, with(ctxs, "func"))
		case *ast.ParenExpr:
			walk(t.X, ctxs)
		case *ast.UnaryExpr:
			walk(t.X, ctxs)
		case *ast.BinaryExpr:
			walk(t.X, ctxs)
			walk(t.Y, ctxs)
		}
	}
	walk(body, nil)
	return out
}

// statMove selects <…>.Inc()/Dec()/Add()/Sub() calls on statistics handles.
func statMove(c *ctx) func(call *ast.CallExpr) (string, bool) {
	return func(call *ast.CallExpr) (string, bool) {
		sel, ok := call.Fun.(*ast.SelectorExpr)
		if !ok {
			return "", false
		}
		switch sel.Sel.Name {
		case "Inc", "Dec", "Add", "Sub":
		default:
			return "", false
		}
		recv := exprString(c.fset, sel.X)
		if !strings.Contains(strings.ToLower(recv), "stats") {
			return "", false
		}
		return recv + "." + sel.Sel.Name, true
	}
}

func leanStrList(l []string) string {
	var q []string
	for _, s := range l {
		q = append(q, fmt.Sprintf("%q", s))
	}
	return "[" + strings.Join(q, ",\n  ") + "]"
}

// Gen/Stats.lean (C20): where each counter and gauge moves, and under which guard.
func init() {
	register("Stats", func(c *ctx, w *strings.Builder) (int, error) {
		w.WriteString("namespace SamVerif.Gen.Stats\n\n")
		items := []struct{ lean, file, fn string }{
			{"addConn", "proc/listener.go", "listener.addConn"},
			{"removeConn", "proc/listener.go", "listener.removeConn"},
			{"listenerStop", "proc/listener.go", "listener.Stop"},
			{"handleRawConn", "proc/listener.go", "listener.handleRawConn"},
			{"tcpHandleConn", "proc/tcp/proc.go", "tcpProc.HandleConn"},
			{"handleRequest", "proc/redis/redis.go", "redisProc.handleRequest"},
			{"makeRequestToHost", "proc/redis/upstream.go", "upstream.MakeRequestToHost"},
			{"handleRedirection", "proc/redis/upstream.go", "upstream.handleRedirection"},
		}
		n := 0
		for _, it := range items {
			fd, err := c.funcDecl(it.file, it.fn)
			if err != nil {
				return 0, err
			}
			pick := statMove(c)
			if it.lean == "handleRawConn" {
				// the registry calls and the handler call, to tie "every registered connection is removed exactly once"
				pick = func(call *ast.CallExpr) (string, bool) {
					s := exprString(c.fset, call.Fun)
					if s == "l.addConn" || s == "l.removeConn" || s == "l.connHandleFn" || s == "conn.Close" {
						return s, true
					}
					return "", false
				}
			}
			if it.lean == "makeRequestToHost" || it.lean == "handleRedirection" {
				base := statMove(c)
				pick = func(call *ast.CallExpr) (string, bool) {
					if s, ok := base(call); ok {
						return s, ok
					}
					s := exprString(c.fset, call.Fun)
					if s == "req.SetResponse" || s == "c.Send" || s == "u.MakeRequestToHost" || s == "req.RegisterHook" {
						return s, true
					}
					return "", false
				}
			}
			facts := flowFacts(c, fd.Body, pick)
			fmt.Fprintf(w, "/-- %s (%s) -/\ndef %s : List String :=\n  %s\n\n", it.fn, it.file, it.lean, leanStrList(facts))
			n += len(facts)
		}
		// SetResponse of both request types: hooks run last-registered-first, then done is closed
		for _, r := range []struct{ lean, fn string }{{"rawSetResponse", "rawRequest.SetResponse"}, {"simpleSetResponse", "simpleRequest.SetResponse"}} {
			fd, err := c.funcDecl("proc/redis/request.go", r.fn)
			if err != nil {
				return 0, err
			}
			var stmts []string
			for _, s := range fd.Body.List {
				stmts = append(stmts, strings.Join(strings.Fields(exprString(c.fset, s)), " "))
			}
			fmt.Fprintf(w, "/-- %s, statement by statement -/\ndef %s : List String :=\n  %s\n\n", r.fn, r.lean, leanStrList(stmts))
			n += len(stmts)
		}
		w.WriteString("end SamVerif.Gen.Stats\n")
		return n, nil
	})
}
