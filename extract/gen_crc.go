package main

import (
	"fmt"
	"go/ast"
	"go/token"
	"strings"
)

// Gen/Crc.lean: the CRC16 table, crc16, hashtag and the slot mask used by
// upstream.chooseHost (C12).
func init() {
	register("Crc", func(c *ctx, w *strings.Builder) (int, error) {
		const util = "proc/redis/util.go"
		const up = "proc/redis/upstream.go"
		items := 0
		w.WriteString("import SamVerif.Model.Go\nset_option linter.unusedVariables false\nnamespace SamVerif.Gen.Crc\nopen SamVerif\n\n")

		// table
		tv, err := c.valueSpec(util, "crc16tab")
		if err != nil {
			return 0, err
		}
		cl, ok := tv.(*ast.CompositeLit)
		if !ok {
			return 0, fmt.Errorf("crc16tab is not a composite literal")
		}
		at, ok := cl.Type.(*ast.ArrayType)
		if !ok {
			return 0, fmt.Errorf("crc16tab type")
		}
		et, err := goType(at.Elt)
		if err != nil || et != "u16" {
			return 0, fmt.Errorf("crc16tab element type must be uint16")
		}
		var vals []string
		for _, e := range cl.Elts {
			bl, ok := e.(*ast.BasicLit)
			if !ok {
				return 0, fmt.Errorf("crc16tab: non-literal element")
			}
			v, err := parseLit(bl)
			if err != nil || v > 0xffff {
				return 0, fmt.Errorf("crc16tab: bad element %s", bl.Value)
			}
			vals = append(vals, fmt.Sprintf("0x%04x#16", v))
		}
		fmt.Fprintf(w, "def tab : Array (BitVec 16) := #[\n")
		for i := 0; i < len(vals); i += 8 {
			j := i + 8
			if j > len(vals) {
				j = len(vals)
			}
			sep := ","
			if j == len(vals) {
				sep = ""
			}
			fmt.Fprintf(w, "  %s%s\n", strings.Join(vals[i:j], ", "), sep)
		}
		w.WriteString("]\n\n")
		items++

		// crc16
		fd, err := c.funcDecl(util, "crc16")
		if err != nil {
			return 0, err
		}
		e := newEnv()
		e.tables["crc16tab"] = [2]string{"tab", "u16"}
		s, err := e.fn(fd, "crc16")
		if err != nil {
			return 0, fmt.Errorf("crc16: %v", err)
		}
		w.WriteString(s + "\n")
		items++

		// hashtag
		fd, err = c.funcDecl(util, "hashtag")
		if err != nil {
			return 0, err
		}
		s, err = newEnv().fn(fd, "hashtag")
		if err != nil {
			return 0, fmt.Errorf("hashtag: %v", err)
		}
		w.WriteString(s + "\n")
		items++

		// slotNum and the slot expression in chooseHost:
		//   hash := crc16(hashtag(routingKey)); inst := u.slots[hash&(slotNum-1)]
		sv, err := c.valueSpec(up, "slotNum")
		if err != nil {
			return 0, err
		}
		bl, ok := sv.(*ast.BasicLit)
		if !ok {
			return 0, fmt.Errorf("slotNum is not a literal")
		}
		n, err := parseLit(bl)
		if err != nil {
			return 0, err
		}
		fmt.Fprintf(w, "def slotNum : Nat := %d\n\n", n)
		items++
		fd, err = c.funcDecl(up, "upstream.chooseHost")
		if err != nil {
			return 0, err
		}
		found := false
		if len(fd.Body.List) >= 2 {
			a0, ok0 := fd.Body.List[0].(*ast.AssignStmt)
			a1, ok1 := fd.Body.List[1].(*ast.AssignStmt)
			if ok0 && ok1 && isCall2(a0.Rhs[0], "crc16", "hashtag") {
				if ix, ok := a1.Rhs[0].(*ast.IndexExpr); ok {
					if be, ok := ix.Index.(*ast.BinaryExpr); ok && be.Op == token.AND {
						if h, ok := be.X.(*ast.Ident); ok && h.Name == a0.Lhs[0].(*ast.Ident).Name {
							if p, ok := be.Y.(*ast.ParenExpr); ok {
								if sb, ok := p.X.(*ast.BinaryExpr); ok && sb.Op == token.SUB {
									if sn, ok := sb.X.(*ast.Ident); ok && sn.Name == "slotNum" {
										if one, ok := sb.Y.(*ast.BasicLit); ok && one.Value == "1" {
											found = true
										}
									}
								}
							}
						}
					}
				}
			}
		}
		if !found {
			return 0, fmt.Errorf("chooseHost: slot expression is not crc16(hashtag(key)) & (slotNum-1)")
		}
		fmt.Fprintf(w, "/-- `u.slots[crc16(hashtag(routingKey)) & (slotNum-1)]` in `upstream.chooseHost` -/\n")
		fmt.Fprintf(w, "def slotOf (key : List UInt8) : Nat := (crc16 (hashtag key) &&& %d#16).toNat\n\n", n-1)
		items++
		w.WriteString("end SamVerif.Gen.Crc\n")
		return items, nil
	})
}

func isCall2(x ast.Expr, outer, inner string) bool {
	c, ok := x.(*ast.CallExpr)
	if !ok || len(c.Args) != 1 {
		return false
	}
	if id, ok := c.Fun.(*ast.Ident); !ok || id.Name != outer {
		return false
	}
	c2, ok := c.Args[0].(*ast.CallExpr)
	if !ok || len(c2.Args) != 1 {
		return false
	}
	id, ok := c2.Fun.(*ast.Ident)
	return ok && id.Name == inner
}
