package main

import (
	"fmt"
	"go/ast"
	"strings"
)

// Gen/Listener.lean (C09): the listener's life-cycle functions and the places where protocol
// handlers wait, statement by statement.
func init() {
	register("Listener", func(c *ctx, w *strings.Builder) (int, error) {
		w.WriteString("namespace SamVerif.Gen.Listener\n\n")
		n := 0
		for _, it := range []struct{ lean, file, fn string }{
			{"serve", "proc/listener.go", "listener.Serve"},
			{"acceptLoop", "proc/listener.go", "listener.serve"},
			{"handleRawConn", "proc/listener.go", "listener.handleRawConn"},
			{"addConn", "proc/listener.go", "listener.addConn"},
			{"removeConn", "proc/listener.go", "listener.removeConn"},
			{"connsLimit", "proc/listener.go", "listener.connsLimit"},
			{"drain", "proc/listener.go", "listener.Drain"},
			{"stop", "proc/listener.go", "listener.Stop"},
			{"redisStop", "proc/redis/redis.go", "redisProc.Stop"},
			{"tcpStop", "proc/tcp/proc.go", "tcpProc.Stop"},
			{"upstreamStop", "proc/redis/upstream.go", "upstream.Stop"},
			{"upstreamServe", "proc/redis/upstream.go", "upstream.Serve"},
			{"sessionLoopWrite", "proc/redis/session.go", "session.loopWrite"},
		} {
			fd, err := c.funcDecl(it.file, it.fn)
			if err != nil {
				return 0, err
			}
			st := stmtTexts(c, fd)
			fmt.Fprintf(w, "/-- %s, statement by statement -/\ndef %s : List String :=\n  %s\n\n", it.fn, it.lean, leanStrList(st))
			n += len(st)
		}
		// where a wait must also watch the quit latch
		for _, it := range []struct{ lean, file, fn string }{
			{"refreshWaits", "proc/redis/upstream.go", "upstream.doSlotsRefresh"},
			{"tcpWatcher", "proc/tcp/proc.go", "tcpProc.HandleConn"},
		} {
			fd, err := c.funcDecl(it.file, it.fn)
			if err != nil {
				return 0, err
			}
			facts := flowFacts(c, fd.Body, func(call *ast.CallExpr) (string, bool) {
				s := exprString(c.fset, call.Fun)
				if s == "sconn.Close" || s == "cconn.Close" || s == "req.Wait" || s == "u.MakeRequestToHost" {
					return s, true
				}
				return "", false
			})
			fmt.Fprintf(w, "/-- %s: selected calls with their control context -/\ndef %s : List String :=\n  %s\n\n", it.fn, it.lean, leanStrList(facts))
			n += len(facts)
		}
		w.WriteString("end SamVerif.Gen.Listener\n")
		return n, nil
	})
}
