package main

import (
	"fmt"
	"go/ast"
	"go/token"
	"sort"
	"strconv"
	"strings"
)

// Gen/Compress.lean (C13): header constants, the value-position switch and the two guards of
// compressFilter.Compress / compress.
func init() {
	register("Compress", func(c *ctx, w *strings.Builder) (int, error) {
		const cps = "proc/redis/filter_compress.go"
		w.WriteString("namespace SamVerif.Gen.Compress\n\n")
		n := 0
		mv, err := c.valueSpec(cps, "cpsMagicNumber")
		if err != nil {
			return 0, err
		}
		bl, ok := mv.(*ast.BasicLit)
		if !ok {
			return 0, fmt.Errorf("cpsMagicNumber is not a literal")
		}
		magic, _ := strconv.Unquote(bl.Value)
		var mb []string
		for _, ch := range []byte(magic) {
			mb = append(mb, strconv.Itoa(int(ch)))
		}
		fmt.Fprintf(w, "def magic : List UInt8 := [%s]\n", strings.Join(mb, ", "))
		hv, err := c.valueSpec(cps, "cpsHdrLen")
		if err != nil {
			return 0, err
		}
		if exprString(c.fset, hv) != "len(cpsMagicNumber) + 3" {
			return 0, fmt.Errorf("cpsHdrLen = %s", exprString(c.fset, hv))
		}
		fmt.Fprintf(w, "def hdrLen : Nat := %d\n\n", len(magic)+3)
		n += 2
		// offset switch in Compress
		fd, err := c.funcDecl(cps, "compressFilter.Compress")
		if err != nil {
			return 0, err
		}
		var offs []string
		stride := int64(-1)
		thrGuard, hdrSkip := "", ""
		ast.Inspect(fd, func(x ast.Node) bool {
			switch t := x.(type) {
			case *ast.SwitchStmt:
				if exprString(c.fset, t.Tag) != "command" {
					return true
				}
				for _, cl := range t.Body.List {
					cc := cl.(*ast.CaseClause)
					if cc.List == nil {
						continue
					}
					if len(cc.Body) != 1 {
						continue
					}
					as, ok := cc.Body[0].(*ast.AssignStmt)
					if !ok {
						continue
					}
					off, err := c.evalConst(cps, as.Rhs[0])
					if err != nil {
						continue
					}
					for _, e := range cc.List {
						s, _ := strconv.Unquote(exprString(c.fset, e))
						var bs []string
						for _, ch := range []byte(s) {
							bs = append(bs, strconv.Itoa(int(ch)))
						}
						offs = append(offs, fmt.Sprintf("([%s], %d)", strings.Join(bs, ", "), off))
					}
				}
			case *ast.ForStmt:
				if as, ok := t.Post.(*ast.AssignStmt); ok && as.Tok == token.ADD_ASSIGN {
					if v, err := c.evalConst(cps, as.Rhs[0]); err == nil {
						stride = v
					}
				}
				for _, st := range t.Body.List {
					if is, ok := st.(*ast.IfStmt); ok {
						s := exprString(c.fset, is.Cond)
						if strings.Contains(s, "Threshold") {
							thrGuard = s
						}
						if strings.Contains(s, "HasPrefix") {
							hdrSkip = s
						}
					}
				}
			}
			return true
		})
		sort.Strings(offs)
		if len(offs) == 0 || stride < 0 || thrGuard == "" {
			return 0, fmt.Errorf("Compress: unexpected shape")
		}
		fmt.Fprintf(w, "/-- position of the first value per command, and the stride between values -/\ndef valueOffset : List (List UInt8 × Nat) := [%s]\ndef valueStride : Nat := %d\n\n", strings.Join(offs, ", "), stride)
		fmt.Fprintf(w, "def thresholdGuard : String := %s\ndef framedSkipGuard : String := %s\n", strconv.Quote(thrGuard), strconv.Quote(hdrSkip))
		n += len(offs) + 3
		// "only if strictly shorter" guard in compress
		fd2, err := c.funcDecl(cps, "compressFilter.compress")
		if err != nil {
			return 0, err
		}
		shorter := ""
		ast.Inspect(fd2, func(x ast.Node) bool {
			if is, ok := x.(*ast.IfStmt); ok {
				s := exprString(c.fset, is.Cond)
				if strings.Contains(s, "b.Len()") {
					shorter = s
				}
			}
			return true
		})
		if shorter == "" {
			return 0, fmt.Errorf("compress: length guard not found")
		}
		fmt.Fprintf(w, "def notShorterGuard : String := %s\n", strconv.Quote(shorter))
		n++
		// header checks in decompress
		fd3, err := c.funcDecl(cps, "compressFilter.decompress")
		if err != nil {
			return 0, err
		}
		var checks []string
		for _, st := range fd3.Body.List {
			if is, ok := st.(*ast.IfStmt); ok {
				checks = append(checks, strconv.Quote(exprString(c.fset, is.Cond)))
			}
		}
		fmt.Fprintf(w, "def decompressChecks : List String := [%s]\n", strings.Join(checks, ", "))
		n++
		w.WriteString("\nend SamVerif.Gen.Compress\n")
		return n, nil
	})
}
