package main

import (
	"fmt"
	"go/ast"
	"strconv"
	"strings"
)

// Gen/Lb.lean (C06): the index expressions of the three balancers as printed source, and
// the comparison the least-connection balancer uses.
func init() {
	register("Lb", func(c *ctx, w *strings.Builder) (int, error) {
		const lb = "proc/internal/lb/lb.go"
		w.WriteString("namespace SamVerif.Gen.Lb\n\n")
		n := 0
		for _, b := range []struct{ recv, name string }{{"roundRobinBalancer", "rr"}, {"randomBalancer", "random"}, {"leastConnBalancer", "leastConn"}} {
			fd, err := c.funcDecl(lb, b.recv+".PickHost")
			if err != nil {
				return 0, err
			}
			var idx []string
			cond := ""
			ast.Inspect(fd.Body, func(x ast.Node) bool {
				switch t := x.(type) {
				case *ast.IndexExpr:
					if exprString(c.fset, t.X) == "hosts" {
						idx = append(idx, strconv.Quote(exprString(c.fset, t.Index)))
					}
				case *ast.IfStmt:
					s := exprString(c.fset, t.Cond)
					if strings.Contains(s, "ConnCount") {
						ret := ""
						if len(t.Body.List) == 1 {
							ret = exprString(c.fset, t.Body.List[0])
						}
						cond = s + " => " + ret
					}
				}
				return true
			})
			if len(idx) == 0 {
				return 0, fmt.Errorf("%s.PickHost: no index into hosts", b.recv)
			}
			fmt.Fprintf(w, "def %sIndex : List String := [%s]\n", b.name, strings.Join(idx, ", "))
			n++
			if b.name == "leastConn" {
				fmt.Fprintf(w, "def leastConnChoice : String := %s\n", strconv.Quote(cond))
				n++
			}
		}
		w.WriteString("\nend SamVerif.Gen.Lb\n")
		return n, nil
	})
}
