package main

import (
	"fmt"
	"go/ast"
	"go/token"
	"sort"
	"strings"
)

// Gen/Hotrestart.lean (C17): message type numbers, the dispatch switch of
// Restarter.handleChild, the call order inside each handler, the buffer size of
// readMessage, and which methods the process instance declares itself.
func init() {
	register("Hotrestart", func(c *ctx, w *strings.Builder) (int, error) {
		const rpc = "cmd/samaritan/hotrestart/rpc.go"
		const hr = "cmd/samaritan/hotrestart/hotrestart.go"
		const sam = "cmd/samaritan/samaritan.go"
		w.WriteString("namespace SamVerif.Gen.Hotrestart\n\n")
		n := 0
		// 1. iota block of messageType
		f, err := c.file(rpc)
		if err != nil {
			return 0, err
		}
		types := map[string]int{}
		var order []string
		for _, d := range f.Decls {
			gd, ok := d.(*ast.GenDecl)
			if !ok || gd.Tok != token.CONST {
				continue
			}
			base := -1
			for i, s := range gd.Specs {
				vs := s.(*ast.ValueSpec)
				if i == 0 {
					if len(vs.Values) != 1 || exprString(c.fset, vs.Type) != "messageType" {
						break
					}
					be, ok := vs.Values[0].(*ast.BinaryExpr)
					if !ok || be.Op != token.ADD || exprString(c.fset, be.X) != "iota" {
						break
					}
					k, err := c.evalConst(rpc, be.Y)
					if err != nil {
						break
					}
					base = int(k)
				}
				if base < 0 {
					break
				}
				if i > 0 && (len(vs.Values) != 0 || vs.Type != nil) {
					return 0, fmt.Errorf("messageType block: unexpected explicit value")
				}
				types[vs.Names[0].Name] = i + base
				order = append(order, vs.Names[0].Name)
			}
		}
		if len(order) == 0 {
			return 0, fmt.Errorf("messageType iota block not found")
		}
		for _, name := range order {
			fmt.Fprintf(w, "def %s : Nat := %d\n", name, types[name])
			n++
		}
		// 2. dispatch switch in handleChild: case X: handle = r.handleY ; default: handle = r.handleZ
		// (the switch lives in Restarter.dispatch, which handleChild calls for every frame of a read)
		fd, err := c.funcDecl(hr, "Restarter.dispatch")
		if err != nil {
			fd, err = c.funcDecl(hr, "Restarter.handleChild")
		}
		if err != nil {
			return 0, err
		}
		var disp []string
		def := ""
		ast.Inspect(fd, func(x ast.Node) bool {
			sw, ok := x.(*ast.SwitchStmt)
			if !ok || exprString(c.fset, sw.Tag) != "msg.Type" {
				return true
			}
			for _, cl := range sw.Body.List {
				cc := cl.(*ast.CaseClause)
				if len(cc.Body) != 1 {
					continue
				}
				as, ok := cc.Body[0].(*ast.AssignStmt)
				if !ok || exprString(c.fset, as.Lhs[0]) != "handle" {
					continue
				}
				h := strings.TrimPrefix(exprString(c.fset, as.Rhs[0]), "r.")
				if cc.List == nil {
					def = h
				}
				for _, e := range cc.List {
					name := exprString(c.fset, e)
					if _, ok := types[name]; !ok {
						continue
					}
					disp = append(disp, fmt.Sprintf("(%d, \"%s\")", types[name], h))
				}
			}
			return false
		})
		if len(disp) == 0 || def == "" {
			return 0, fmt.Errorf("handleChild: dispatch switch over msg.Type not found")
		}
		sort.Strings(disp)
		fmt.Fprintf(w, "\n/-- `switch msg.Type` in Restarter.handleChild: (request type, handler) -/\ndef dispatch : List (Nat × String) := [%s]\ndef dispatchDefault : String := \"%s\"\n", strings.Join(disp, ", "), def)
		n += len(disp) + 1
		// 3. calls made by each handler, in source order
		handlers := map[string]bool{def: true}
		for _, d := range disp {
			handlers[d[strings.Index(d, "\"")+1:len(d)-2]] = true
		}
		var hs []string
		for h := range handlers {
			hs = append(hs, h)
		}
		sort.Strings(hs)
		w.WriteString("\n/-- calls made by each handler, in source order -/\ndef handlerCalls : List (String × List String) := [\n")
		for i, h := range hs {
			hd, err := c.funcDecl(hr, "Restarter."+h)
			if err != nil {
				return 0, err
			}
			var calls []string
			ast.Inspect(hd.Body, func(x ast.Node) bool {
				if ce, ok := x.(*ast.CallExpr); ok {
					name := exprString(c.fset, ce.Fun)
					name = strings.TrimPrefix(name, "r.")
					// constructor of the reply names the reply type
					calls = append(calls, "\""+name+"\"")
				}
				return true
			})
			sep := ","
			if i == len(hs)-1 {
				sep = ""
			}
			fmt.Fprintf(w, "  (\"%s\", [%s])%s\n", h, strings.Join(calls, ", "), sep)
			n++
		}
		w.WriteString("]\n")
		// 4. reply constructors: newXResponse -> message type constant
		var ctors []string
		for _, d := range f.Decls {
			fd, ok := d.(*ast.FuncDecl)
			if !ok || !strings.HasPrefix(fd.Name.Name, "new") || fd.Name.Name == "newMessage" {
				continue
			}
			ast.Inspect(fd.Body, func(x ast.Node) bool {
				if ce, ok := x.(*ast.CallExpr); ok && exprString(c.fset, ce.Fun) == "newMessage" && len(ce.Args) == 2 {
					if v, ok := types[exprString(c.fset, ce.Args[0])]; ok {
						payload := "true"
						if exprString(c.fset, ce.Args[1]) == "nil" {
							payload = "false"
						}
						ctors = append(ctors, fmt.Sprintf("(\"%s\", %d, %s)", fd.Name.Name, v, payload))
					}
				}
				return true
			})
		}
		sort.Strings(ctors)
		fmt.Fprintf(w, "\n/-- message constructors: (name, type, has a JSON payload) -/\ndef constructors : List (String × Nat × Bool) := [%s]\n", strings.Join(ctors, ", "))
		n += len(ctors)
		// 5. read buffer size of readMessage: b := make([]byte, N)
		rd, err := c.funcDecl(rpc, "readMessage")
		if err != nil {
			return 0, err
		}
		buf := int64(-1)
		ast.Inspect(rd.Body, func(x ast.Node) bool {
			if ce, ok := x.(*ast.CallExpr); ok && exprString(c.fset, ce.Fun) == "make" && len(ce.Args) == 2 {
				if v, err := c.evalConst(rpc, ce.Args[1]); err == nil {
					buf = v
				}
			}
			return true
		})
		if buf < 0 {
			return 0, fmt.Errorf("readMessage: buffer size not found")
		}
		fmt.Fprintf(w, "\ndef readBufSize : Nat := %d\n", buf)
		n++
		// 6. methods of the Instance interface and methods the process instance declares itself
		hf, err := c.file(hr)
		if err != nil {
			return 0, err
		}
		var iface []string
		ast.Inspect(hf, func(x ast.Node) bool {
			ts, ok := x.(*ast.TypeSpec)
			if !ok || ts.Name.Name != "Instance" {
				return true
			}
			if it, ok := ts.Type.(*ast.InterfaceType); ok {
				for _, m := range it.Methods.List {
					for _, nm := range m.Names {
						iface = append(iface, "\""+nm.Name+"\"")
					}
				}
			}
			return false
		})
		sf, err := c.file(sam)
		if err != nil {
			return 0, err
		}
		var own []string
		for _, d := range sf.Decls {
			fd, ok := d.(*ast.FuncDecl)
			if !ok || fd.Recv == nil || len(fd.Recv.List) != 1 {
				continue
			}
			if strings.TrimPrefix(exprString(c.fset, fd.Recv.List[0].Type), "*") == "instance" {
				own = append(own, "\""+fd.Name.Name+"\"")
			}
		}
		sort.Strings(iface)
		sort.Strings(own)
		if len(iface) == 0 {
			return 0, fmt.Errorf("Instance interface not found")
		}
		fmt.Fprintf(w, "\n/-- methods of hotrestart.Instance, and the methods `instance` (cmd/samaritan) declares itself.\nA method of the interface that `instance` does not declare is promoted from the embedded\nRestarter, whose embedded Instance is the instance itself: calling it recurses forever. -/\ndef instanceIface : List String := [%s]\ndef instanceOwnMethods : List String := [%s]\n", strings.Join(iface, ", "), strings.Join(own, ", "))
		n += 2
		w.WriteString("\nend SamVerif.Gen.Hotrestart\n")
		return n, nil
	})
}
