package main

import (
	"fmt"
	"go/ast"
	"go/token"
	"strconv"
	"time"
)

// evalConst evaluates a constant integer expression (literals, + - * / << >>,
// parentheses, references to other package-level constants of the same file,
// time.Second-style durations as nanoseconds).
func (c *ctx) evalConst(rel string, x ast.Expr) (int64, error) {
	switch t := x.(type) {
	case *ast.BasicLit:
		if t.Kind == token.CHAR {
			s, err := strconv.Unquote(t.Value)
			if err != nil || len(s) != 1 {
				return 0, fmt.Errorf("char literal %s", t.Value)
			}
			return int64(s[0]), nil
		}
		if t.Kind != token.INT {
			return 0, fmt.Errorf("non-integer literal %s", t.Value)
		}
		v, err := strconv.ParseInt(t.Value, 0, 64)
		return v, err
	case *ast.ParenExpr:
		return c.evalConst(rel, t.X)
	case *ast.UnaryExpr:
		v, err := c.evalConst(rel, t.X)
		if err != nil {
			return 0, err
		}
		if t.Op == token.SUB {
			return -v, nil
		}
		return 0, fmt.Errorf("unary %v", t.Op)
	case *ast.Ident:
		e, err := c.valueSpec(rel, t.Name)
		if err != nil {
			return 0, err
		}
		return c.evalConst(rel, e)
	case *ast.SelectorExpr:
		if p, ok := t.X.(*ast.Ident); ok && p.Name == "time" {
			switch t.Sel.Name {
			case "Nanosecond":
				return int64(time.Nanosecond), nil
			case "Microsecond":
				return int64(time.Microsecond), nil
			case "Millisecond":
				return int64(time.Millisecond), nil
			case "Second":
				return int64(time.Second), nil
			case "Minute":
				return int64(time.Minute), nil
			case "Hour":
				return int64(time.Hour), nil
			}
		}
		return 0, fmt.Errorf("selector constant")
	case *ast.CallExpr:
		// conversions like byte('x'), uint16(3)
		if len(t.Args) == 1 {
			if _, ok := t.Fun.(*ast.Ident); ok {
				return c.evalConst(rel, t.Args[0])
			}
		}
		return 0, fmt.Errorf("call in constant")
	case *ast.BinaryExpr:
		a, err := c.evalConst(rel, t.X)
		if err != nil {
			return 0, err
		}
		b, err := c.evalConst(rel, t.Y)
		if err != nil {
			return 0, err
		}
		switch t.Op {
		case token.ADD:
			return a + b, nil
		case token.SUB:
			return a - b, nil
		case token.MUL:
			return a * b, nil
		case token.QUO:
			if b == 0 {
				return 0, fmt.Errorf("division by zero")
			}
			return a / b, nil
		case token.SHL:
			return a << uint(b), nil
		case token.SHR:
			return a >> uint(b), nil
		}
		return 0, fmt.Errorf("operator %v in constant", t.Op)
	}
	return 0, fmt.Errorf("unsupported constant expression %T", x)
}

func (c *ctx) constNamed(rel, name string) (int64, error) {
	e, err := c.valueSpec(rel, name)
	if err != nil {
		return 0, err
	}
	return c.evalConst(rel, e)
}

func leanInt(v int64) string {
	if v < 0 {
		return fmt.Sprintf("(%d)", v)
	}
	return strconv.FormatInt(v, 10)
}
