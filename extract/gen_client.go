package main

import (
	"fmt"
	"strings"
)

// Gen/Client.lean (C02): the backend connection's functions, statement by statement.
func init() {
	register("Client", func(c *ctx, w *strings.Builder) (int, error) {
		const f = "proc/redis/upstream.go"
		w.WriteString("namespace SamVerif.Gen.Client\n\n")
		n := 0
		for _, it := range []struct{ lean, fn string }{
			{"send", "client.Send"},
			{"sendOne", "client.send"},
			{"start", "client.Start"},
			{"stop", "client.Stop"},
			{"loopWrite", "client.loopWrite"},
			{"loopRead", "client.loopRead"},
			{"drainRequests", "client.drainRequests"},
		} {
			fd, err := c.funcDecl(f, it.fn)
			if err != nil {
				return 0, err
			}
			st := stmtTexts(c, fd)
			fmt.Fprintf(w, "/-- %s, statement by statement -/\ndef %s : List String :=\n  %s\n\n", it.fn, it.lean, leanStrList(st))
			n += len(st)
		}
		for _, it := range []struct{ lean, fn string }{
			{"isValid", "rawRequest.IsValid"},
			{"rawSetResponse", "rawRequest.SetResponse"},
			{"simpleSetResponse", "simpleRequest.SetResponse"},
			{"msetChildDone", "msetRequest.onChildDone"},
			{"mgetChildDone", "mgetRequest.onChildDone"},
			{"sumChildDone", "sumResultRequest.onChildDone"},
		} {
			fd, err := c.funcDecl("proc/redis/request.go", it.fn)
			if err != nil {
				return 0, err
			}
			st := stmtTexts(c, fd)
			fmt.Fprintf(w, "/-- %s, statement by statement -/\ndef %s : List String :=\n  %s\n\n", it.fn, it.lean, leanStrList(st))
			n += len(st)
		}
		w.WriteString("end SamVerif.Gen.Client\n")
		return n, nil
	})
}
